/-
C07 / C03 with auxiliary data - composition of the layout theorem (Props/C07, proved for `aux = none`) and of the
session theorems of Props/C03Ids (proved for sessions without aux data) with the transparency of *honest* auxiliary
buffers (Lemmas/AuxLifecycle, Props/C10Life).

`Honest H cfg seed p0 aux` (Lemmas/AuxLifecycle): if the buffer is marked as used and `hss_expand_aux_data` accepts it
for `seed`, its non-zero slots hold true nodes of the top tree. It holds for absent, unmarked and MAC-rejected
buffers and for everything `hssKeygen` / `hssSign` of this key wrote back into such a buffer (`Reachable`,
`Props.C10Life.reachable_honest`) - no hypothesis about MACs.
`KeyFor H cfg seed p0 sk`: if `sk` parses and its parameter bytes decode, its seed is `seed` and its top-level
parameter is `p0`.

* per call: `released_signature_layout_honest_aux` (+ `_parsed`, `_reachable` forms, and the assembled
  `released_signature_spec_honest_aux`): the signature released with an honest buffer is `hssSigBytes` of the parsed
  blob's seed, parameter list and counter - the conclusion of `Props.C07.released_signature_layout`;
* sessions: `session_releases_honest_aux`, `no_position_signs_two_contents_honest_aux`,
  `no_identifier_leaf_signs_two_contents_honest_aux` (+ `_reachable` forms): the session theorems of Props/C03Ids
  with `∀ c ∈ calls, c.aux = none` replaced by `∀ c ∈ calls, Honest H cfg k0.seed p0 c.aux`.

The only side condition is `cfg.maxTreeHeight ≤ 30` (inherited from Props/C10; the library supports ≤ 25).
-/
import HbsLms.Props.C07
import HbsLms.Props.C10Life
import HbsLms.Props.C03Ids

namespace Props.C07Aux

open Impl Spec Lemmas Lemmas.Layout Lemmas.Complete Lemmas.Positions Lemmas.AuxCache Lemmas.AuxLifecycle
open Props.C10Life (Reachable)
open Props.C03Ids (SameContentAt IdsDistinguishPositions)

/-! ## per call -/

/-- the key blob `(counter, params, seed)` with 8 parameter bytes that decode to `p0 :: rest`, a seed of the hash
length and a counter below `2^64` is a key for `(seed, p0)` -/
theorem keyFor_bytes {H : HashFn} {cfg : Config} {k : RefKey} {p0 : HssParam} {rest : List HssParam}
    (hp8 : k.params.length = 8) (hseed : k.seed.length = H.n) (hc : k.counter < 2 ^ 64)
    (hps : paramsOfBytes cfg H.n k.params = some (p0 :: rest)) : KeyFor H cfg k.seed p0 k.bytes := by
  intro k' hk' p hp
  rw [Lemmas.parse_bytes H.n k hp8 hseed hc] at hk'
  cases hk'
  unfold signTop at hp
  rw [hps] at hp
  simp only [Option.bind_some, List.head?_cons, Option.some.injEq] at hp
  exact ⟨rfl, hp.symm⟩

/-- key bytes that parse to `k` with top-level parameter `p0` are key bytes for `(k.seed, p0)` -/
theorem keyFor_of_parse {H : HashFn} {cfg : Config} {sk : Bytes} {k : RefKey} {p0 : HssParam}
    (hk : RefKey.parse H.n sk = some k) (hst : signTop H cfg k = some p0) : KeyFor H cfg k.seed p0 sk := by
  intro k' hk' p hp
  rw [hk] at hk'; cases hk'
  rw [hst] at hp; cases hp
  exact ⟨rfl, rfl⟩

/-- **T2 with an honest aux buffer.** Every signature released by `hss_sign_core` with key bytes for `(seed, p0)` and
an auxiliary buffer that is honest for `(seed, p0)` (any message, callback) is `hssSigBytes` of the parsed blob's seed,
parameter list and counter - exactly what is released without auxiliary data; the parsed blob carries `seed` and its
parameter list starts with `p0`. -/
theorem released_signature_layout_honest_aux {H : HashFn} {cfg : Config} {msg sk : Bytes} {cb : Bytes → Bool}
    {aux : Option Bytes} {o : SignOutcome} {sig : Bytes} (hK : cfg.maxTreeHeight ≤ 30)
    (seed : Bytes) (p0 : HssParam) (hkf : KeyFor H cfg seed p0 sk) (hh : Honest H cfg seed p0 aux)
    (h : hssSign H cfg msg sk cb aux = .ok o) (hr : o.result = some sig) :
    ∃ k rest, RefKey.parse H.n sk = some k ∧ k.seed = seed ∧
      paramsOfBytes cfg H.n k.params = some (p0 :: rest) ∧
      sig = hssSigBytes H k.seed p0 rest k.counter msg := by
  obtain ⟨o', h1, h2, _⟩ := Props.C10Life.sign_honest_same_signature H cfg hK msg sk cb aux seed p0 o hkf hh h
  obtain ⟨k, p0', rest, hk, hps, hsig⟩ := Props.C07.released_signature_layout h1 (by rw [h2]; exact hr)
  have hst : signTop H cfg k = some p0' := by
    unfold signTop
    rw [hps]
    rfl
  obtain ⟨hs, hp⟩ := hkf k hk p0' hst
  subst hp
  exact ⟨k, rest, hk, hs, hps, hsig⟩

/-- the same in the vocabulary of `Props.C07.released_signature_layout` (literally its conclusion): the key bytes
parse to `k`, the top-level parameter of `k` is `p0` and the buffer is `Honest H cfg k.seed p0 aux` -/
theorem released_signature_layout_honest_aux_parsed {H : HashFn} {cfg : Config} {msg sk : Bytes}
    {cb : Bytes → Bool} {aux : Option Bytes} {o : SignOutcome} {sig : Bytes} (hK : cfg.maxTreeHeight ≤ 30)
    (k : RefKey) (p0 : HssParam) (hk : RefKey.parse H.n sk = some k) (hst : signTop H cfg k = some p0)
    (hh : Honest H cfg k.seed p0 aux)
    (h : hssSign H cfg msg sk cb aux = .ok o) (hr : o.result = some sig) :
    ∃ k p0 rest, RefKey.parse H.n sk = some k ∧ paramsOfBytes cfg H.n k.params = some (p0 :: rest) ∧
      sig = hssSigBytes H k.seed p0 rest k.counter msg := by
  obtain ⟨k', rest, hk', _, hps, hsig⟩ :=
    released_signature_layout_honest_aux hK k.seed p0 (keyFor_of_parse hk hst) hh h hr
  exact ⟨k', p0, rest, hk', hps, hsig⟩

/-- ... with the existential resolved: it is the key `k` the bytes parse to, and its parameter list is `p0 :: rest` -/
theorem released_signature_layout_honest_aux_of_parse {H : HashFn} {cfg : Config} {msg sk : Bytes}
    {cb : Bytes → Bool} {aux : Option Bytes} {o : SignOutcome} {sig : Bytes} (hK : cfg.maxTreeHeight ≤ 30)
    (k : RefKey) (p0 : HssParam) (hk : RefKey.parse H.n sk = some k) (hst : signTop H cfg k = some p0)
    (hh : Honest H cfg k.seed p0 aux)
    (h : hssSign H cfg msg sk cb aux = .ok o) (hr : o.result = some sig) :
    ∃ rest, paramsOfBytes cfg H.n k.params = some (p0 :: rest) ∧
      sig = hssSigBytes H k.seed p0 rest k.counter msg := by
  obtain ⟨k', rest, hk', _, hps, hsig⟩ :=
    released_signature_layout_honest_aux hK k.seed p0 (keyFor_of_parse hk hst) hh h hr
  rw [hk] at hk'
  cases hk'
  exact ⟨rest, hps, hsig⟩

/-- the `Reachable` form: for every buffer that can occur in the life of the key `(ps, seed)` - absent, unmarked or
MAC-rejected caller buffers and whatever `hssKeygen` / `hssSign` of this key wrote back, any number of times - and
key bytes of this key, the released signature has the layout. No hypothesis about MACs or cache contents. -/
theorem released_signature_layout_reachable_aux {H : HashFn} {cfg : Config} {msg sk : Bytes} {cb : Bytes → Bool}
    {aux : Option Bytes} {o : SignOutcome} {sig : Bytes} (hK : cfg.maxTreeHeight ≤ 30)
    (ps : List HssParam) (seed : Bytes) (p0 : HssParam) (htop : keygenTop H cfg ps = some p0)
    (hreach : Reachable H cfg ps seed p0 aux) (hkf : KeyFor H cfg seed p0 sk)
    (h : hssSign H cfg msg sk cb aux = .ok o) (hr : o.result = some sig) :
    ∃ k rest, RefKey.parse H.n sk = some k ∧ k.seed = seed ∧
      paramsOfBytes cfg H.n k.params = some (p0 :: rest) ∧
      sig = hssSigBytes H k.seed p0 rest k.counter msg :=
  released_signature_layout_honest_aux hK seed p0 hkf
    (Props.C10Life.reachable_honest H cfg hK ps seed p0 htop aux hreach) h hr

/-- the generated key with any counter value `c` in its 8 counter bytes and any reachable buffer - e.g. the buffer
written back by key generation itself -/
theorem released_signature_layout_after_keygen {H : HashFn} {cfg : Config} {msg : Bytes} {cb : Bytes → Bool}
    {aux : Option Bytes} {o : SignOutcome} {sig : Bytes} (hK : cfg.maxTreeHeight ≤ 30)
    (ps : List HssParam) (seed : Bytes) (auxK : Option Bytes) (p0 : HssParam) (ko : KeygenOutcome)
    (skb vk : Bytes) (c : Nat)
    (htop : keygenTop H cfg ps = some p0) (hseed : seed.length = H.n)
    (hkg : hssKeygen H cfg ps seed auxK = .ok ko) (hkr : ko.result = some (skb, vk))
    (hreach : Reachable H cfg ps seed p0 aux)
    (h : hssSign H cfg msg (Bytes.u64be c ++ skb.drop 8) cb aux = .ok o) (hr : o.result = some sig) :
    ∃ k rest, RefKey.parse H.n (Bytes.u64be c ++ skb.drop 8) = some k ∧ k.seed = seed ∧
      paramsOfBytes cfg H.n k.params = some (p0 :: rest) ∧
      sig = hssSigBytes H k.seed p0 rest k.counter msg :=
  released_signature_layout_reachable_aux hK ps seed p0 htop hreach
    (Props.C10Life.generated_key_keyFor H cfg ps seed auxK p0 ko skb vk c htop hseed hkg hkr).2 h hr

/-- **C07 assembled, with an honest aux buffer**: layout, exact RFC 8554 length, table hash length, and every level
of the key carries a 16-byte identifier, the Appendix B parameters of its type codes and a current leaf inside its
tree (the conclusion of `Props.C07.released_signature_spec`). -/
theorem released_signature_spec_honest_aux {H : HashFn} {cfg : Config} {msg sk : Bytes} {cb : Bytes → Bool}
    {aux : Option Bytes} {o : SignOutcome} {sig : Bytes} (hK : cfg.maxTreeHeight ≤ 30)
    (seed : Bytes) (p0 : HssParam) (hkf : KeyFor H cfg seed p0 sk) (hh : Honest H cfg seed p0 aux)
    (h : hssSign H cfg msg sk cb aux = .ok o) (hr : o.result = some sig) :
    ∃ k rest, RefKey.parse H.n sk = some k ∧ k.seed = seed ∧
      paramsOfBytes cfg H.n k.params = some (p0 :: rest) ∧
      sig = hssSigBytes H k.seed p0 rest k.counter msg ∧
      sig.length = 4 + ((p0 :: rest).map fun p => 12 + H.n * (p.ots.p + 1) + H.n * p.lms.h).sum +
        ((p0 :: rest).length - 1) * (24 + H.n) ∧
      (H.n = 16 ∨ H.n = 24 ∨ H.n = 32) ∧
      ∀ l ∈ topLevel H k.seed p0 rest k.counter :: lowerLevels H k.seed p0 rest k.counter,
        Props.C07.LevelAppendixB H.n l.key.ots l.key.lms ∧ l.key.I.length = 16 ∧ l.q < 2 ^ l.key.lms.h := by
  obtain ⟨o', h1, h2, _⟩ := Props.C10Life.sign_honest_same_signature H cfg hK msg sk cb aux seed p0 o hkf hh h
  obtain ⟨k, p0', rest, hk, hps, hsig, hlen, hn, hlv⟩ :=
    Props.C07.released_signature_spec h1 (by rw [h2]; exact hr)
  have hst : signTop H cfg k = some p0' := by
    unfold signTop
    rw [hps]
    rfl
  obtain ⟨hs, hp⟩ := hkf k hk p0' hst
  subst hp
  exact ⟨k, rest, hk, hs, hps, hsig, hlen, hn, hlv⟩

/-! ## sessions -/

/-- `Props.C03Ids.session_releases` for sessions in which every call passes an aux buffer that is honest for the
key: the released signatures of the session, as a list of releases `(counter, message, bytes)`: the log is the image
of that list, the counters are strictly increasing, every release was made for the message of one of the session's
calls, with a counter below the number of leaves, and its bytes are `hssSigBytes` of the key's seed and parameter
list, its counter and its message. -/
theorem session_releases_honest_aux {H : HashFn} {cfg : Config} {k0 : RefKey} {p0 : HssParam}
    {rest : List HssParam} (hK : cfg.maxTreeHeight ≤ 30)
    (hp8 : k0.params.length = 8) (hseed : k0.seed.length = H.n)
    (hps : paramsOfBytes cfg H.n k0.params = some (p0 :: rest)) (hsum : (heights p0 rest).sum ≤ 63)
    (hc0 : k0.counter < leavesTotal (heights p0 rest))
    (calls : List Call) (hhon : ∀ c ∈ calls, Honest H cfg k0.seed p0 c.aux) (skN : Bytes)
    (log : List (Bytes × Bytes))
    (h : session H cfg k0.bytes calls = .ok (skN, log)) :
    ∃ rels : List Release,
      log = rels.map (fun r => (({ k0 with counter := r.counter } : RefKey).bytes, r.sig)) ∧
      (rels.map (·.counter)).Pairwise (· < ·) ∧
      ∀ r ∈ rels, k0.counter ≤ r.counter ∧ r.counter < leavesTotal (heights p0 rest) ∧
        (∃ c ∈ calls, c.msg = r.msg) ∧ r.sig = hssSigBytes H k0.seed p0 rest r.counter r.msg := by
  obtain ⟨cs, final, hmap, hpw, hmem, _, _, _, _⟩ :=
    Props.C03.session_never_reuses_a_leaf hp8 hseed hps hsum hc0 calls skN log h
  obtain ⟨rel, hsub, hm⟩ := session_log_calls H cfg calls _ skN log h
  obtain ⟨rels, h1, h2, h3⟩ :=
    matched_releases (fun c => ({ k0 with counter := c } : RefKey).bytes) log rel hm cs hmap
  refine ⟨rels, h1, by rw [h2]; exact hpw, ?_⟩
  intro r hr
  have hrc : r.counter ∈ cs := by
    rw [← h2]; exact List.mem_map.mpr ⟨r, hr, rfl⟩
  obtain ⟨hlo, hhi⟩ := hmem _ hrc
  obtain ⟨c, hc, hmsg, o, ho, hres⟩ := h3 r hr
  have hcall : c ∈ calls := hsub.subset hc
  have h63 : 2 ^ (heights p0 rest).sum ≤ 2 ^ 63 := Nat.pow_le_pow_right (by omega) hsum
  have hlt : r.counter < 2 ^ 64 := by
    have : r.counter < 2 ^ (heights p0 rest).sum := hhi
    omega
  have hparse : RefKey.parse H.n ({ k0 with counter := r.counter } : RefKey).bytes
      = some { k0 with counter := r.counter } :=
    Lemmas.parse_bytes H.n ({ k0 with counter := r.counter } : RefKey) hp8 hseed hlt
  have hkf : KeyFor H cfg k0.seed p0 ({ k0 with counter := r.counter } : RefKey).bytes :=
    keyFor_bytes (k := ({ k0 with counter := r.counter } : RefKey)) hp8 hseed hlt hps
  obtain ⟨k, rest', hk, _, hps', hsig⟩ :=
    released_signature_layout_honest_aux hK k0.seed p0 hkf (hhon c hcall) ho hres
  simp only at hk hsig
  rw [hparse] at hk
  cases hk
  simp only at hps' hsig
  rw [hps] at hps'
  simp only [Option.some.injEq, List.cons.injEq, true_and] at hps'
  subst hps'
  refine ⟨hlo, hhi, ⟨c, hcall, hmsg⟩, ?_⟩
  rw [← hmsg]; exact hsig

/-- **P1 with honest aux buffers. NO ONE-TIME KEY POSITION SIGNS TWO CONTENTS.** `Props.C03Ids.no_position_signs_two_contents`
for sessions in which every call passes an aux buffer that is honest for the key (instead of no buffer): for any two
released signatures and any level `j`, equal one-time key positions at level `j` imply that level `j` signs the same
content in both; at the bottom level the two releases are the same release. -/
theorem no_position_signs_two_contents_honest_aux {H : HashFn} {cfg : Config} {k0 : RefKey} {p0 : HssParam}
    {rest : List HssParam} (hK : cfg.maxTreeHeight ≤ 30)
    (hp8 : k0.params.length = 8) (hseed : k0.seed.length = H.n)
    (hps : paramsOfBytes cfg H.n k0.params = some (p0 :: rest)) (hsum : (heights p0 rest).sum ≤ 63)
    (hc0 : k0.counter < leavesTotal (heights p0 rest))
    (calls : List Call) (hhon : ∀ c ∈ calls, Honest H cfg k0.seed p0 c.aux) (skN : Bytes)
    (log : List (Bytes × Bytes))
    (h : session H cfg k0.bytes calls = .ok (skN, log)) :
    ∃ rels : List Release,
      log = rels.map (fun r => (({ k0 with counter := r.counter } : RefKey).bytes, r.sig)) ∧
      (∀ r ∈ rels, r.counter < leavesTotal (heights p0 rest) ∧ (∃ c ∈ calls, c.msg = r.msg) ∧
        r.sig = hssSigBytes H k0.seed p0 rest r.counter r.msg) ∧
      ∀ (a b : Nat) (ra rb : Release), rels[a]? = some ra → rels[b]? = some rb →
        ∀ j, j < (p0 :: rest).length →
          pos (heights p0 rest) ra.counter j = pos (heights p0 rest) rb.counter j →
          leafAt (heights p0 rest) ra.counter j = leafAt (heights p0 rest) rb.counter j →
          SameContentAt H k0.seed p0 rest a b ra rb j := by
  obtain ⟨rels, h1, hpw, hall⟩ := session_releases_honest_aux hK hp8 hseed hps hsum hc0 calls hhon skN log h
  refine ⟨rels, h1, fun r hr => ⟨(hall r hr).2.1, (hall r hr).2.2.1, (hall r hr).2.2.2⟩, ?_⟩
  intro a b ra rb ha hb j hj hp hq
  exact Props.C03Ids.sameContentAt_of_position rels hpw (fun r hr => (hall r hr).2.1) a b ra rb ha hb j hj hp hq

/-- **P2 with honest aux buffers. NO (TREE IDENTIFIER, LEAF INDEX) SIGNS TWO CONTENTS.**
`Props.C03Ids.no_identifier_leaf_signs_two_contents` for sessions in which every call passes an aux buffer that is
honest for the key, under the same explicit hypothesis `IdsDistinguishPositions`. -/
theorem no_identifier_leaf_signs_two_contents_honest_aux {H : HashFn} {cfg : Config} {k0 : RefKey}
    {p0 : HssParam} {rest : List HssParam} (hK : cfg.maxTreeHeight ≤ 30)
    (hp8 : k0.params.length = 8) (hseed : k0.seed.length = H.n)
    (hps : paramsOfBytes cfg H.n k0.params = some (p0 :: rest)) (hsum : (heights p0 rest).sum ≤ 63)
    (hc0 : k0.counter < leavesTotal (heights p0 rest))
    (hid : IdsDistinguishPositions H k0.seed p0 rest)
    (calls : List Call) (hhon : ∀ c ∈ calls, Honest H cfg k0.seed p0 c.aux) (skN : Bytes)
    (log : List (Bytes × Bytes))
    (h : session H cfg k0.bytes calls = .ok (skN, log)) :
    ∃ rels : List Release,
      log = rels.map (fun r => (({ k0 with counter := r.counter } : RefKey).bytes, r.sig)) ∧
      (∀ r ∈ rels, r.counter < leavesTotal (heights p0 rest) ∧ (∃ c ∈ calls, c.msg = r.msg) ∧
        r.sig = hssSigBytes H k0.seed p0 rest r.counter r.msg) ∧
      ∀ (a b : Nat) (ra rb : Release), rels[a]? = some ra → rels[b]? = some rb →
        ∀ j, j < (p0 :: rest).length →
          idAt H k0.seed p0 rest ra.counter j = idAt H k0.seed p0 rest rb.counter j →
          leafAt (heights p0 rest) ra.counter j = leafAt (heights p0 rest) rb.counter j →
          SameContentAt H k0.seed p0 rest a b ra rb j := by
  obtain ⟨rels, h1, hpw, hall⟩ := session_releases_honest_aux hK hp8 hseed hps hsum hc0 calls hhon skN log h
  refine ⟨rels, h1, fun r hr => ⟨(hall r hr).2.1, (hall r hr).2.2.1, (hall r hr).2.2.2⟩, ?_⟩
  intro a b ra rb ha hb j hj hI hq
  have hra : ra ∈ rels := List.mem_of_getElem? ha
  have hrb : rb ∈ rels := List.mem_of_getElem? hb
  exact Props.C03Ids.sameContentAt_of_position rels hpw (fun r hr => (hall r hr).2.1) a b ra rb ha hb j hj
    (hid ra.counter rb.counter (hall ra hra).2.1 (hall rb hrb).2.1 j hj hI) hq

/-- P1 for sessions whose aux buffers are `Reachable` in the life of the key `(ps, seed)` (caller buffers that are
absent / unmarked / MAC-rejected, and whatever the library wrote back into them): no hypothesis on buffer contents -/
theorem no_position_signs_two_contents_reachable_aux {H : HashFn} {cfg : Config} {k0 : RefKey} {p0 : HssParam}
    {rest : List HssParam} (hK : cfg.maxTreeHeight ≤ 30) (ps : List HssParam)
    (htop : keygenTop H cfg ps = some p0)
    (hp8 : k0.params.length = 8) (hseed : k0.seed.length = H.n)
    (hps : paramsOfBytes cfg H.n k0.params = some (p0 :: rest)) (hsum : (heights p0 rest).sum ≤ 63)
    (hc0 : k0.counter < leavesTotal (heights p0 rest))
    (calls : List Call) (hreach : ∀ c ∈ calls, Reachable H cfg ps k0.seed p0 c.aux) (skN : Bytes)
    (log : List (Bytes × Bytes))
    (h : session H cfg k0.bytes calls = .ok (skN, log)) :
    ∃ rels : List Release,
      log = rels.map (fun r => (({ k0 with counter := r.counter } : RefKey).bytes, r.sig)) ∧
      (∀ r ∈ rels, r.counter < leavesTotal (heights p0 rest) ∧ (∃ c ∈ calls, c.msg = r.msg) ∧
        r.sig = hssSigBytes H k0.seed p0 rest r.counter r.msg) ∧
      ∀ (a b : Nat) (ra rb : Release), rels[a]? = some ra → rels[b]? = some rb →
        ∀ j, j < (p0 :: rest).length →
          pos (heights p0 rest) ra.counter j = pos (heights p0 rest) rb.counter j →
          leafAt (heights p0 rest) ra.counter j = leafAt (heights p0 rest) rb.counter j →
          SameContentAt H k0.seed p0 rest a b ra rb j :=
  no_position_signs_two_contents_honest_aux hK hp8 hseed hps hsum hc0 calls
    (fun c hc => Props.C10Life.reachable_honest H cfg hK ps k0.seed p0 htop c.aux (hreach c hc)) skN log h

/-- P2 for sessions whose aux buffers are `Reachable` in the life of the key -/
theorem no_identifier_leaf_signs_two_contents_reachable_aux {H : HashFn} {cfg : Config} {k0 : RefKey}
    {p0 : HssParam} {rest : List HssParam} (hK : cfg.maxTreeHeight ≤ 30) (ps : List HssParam)
    (htop : keygenTop H cfg ps = some p0)
    (hp8 : k0.params.length = 8) (hseed : k0.seed.length = H.n)
    (hps : paramsOfBytes cfg H.n k0.params = some (p0 :: rest)) (hsum : (heights p0 rest).sum ≤ 63)
    (hc0 : k0.counter < leavesTotal (heights p0 rest))
    (hid : IdsDistinguishPositions H k0.seed p0 rest)
    (calls : List Call) (hreach : ∀ c ∈ calls, Reachable H cfg ps k0.seed p0 c.aux) (skN : Bytes)
    (log : List (Bytes × Bytes))
    (h : session H cfg k0.bytes calls = .ok (skN, log)) :
    ∃ rels : List Release,
      log = rels.map (fun r => (({ k0 with counter := r.counter } : RefKey).bytes, r.sig)) ∧
      (∀ r ∈ rels, r.counter < leavesTotal (heights p0 rest) ∧ (∃ c ∈ calls, c.msg = r.msg) ∧
        r.sig = hssSigBytes H k0.seed p0 rest r.counter r.msg) ∧
      ∀ (a b : Nat) (ra rb : Release), rels[a]? = some ra → rels[b]? = some rb →
        ∀ j, j < (p0 :: rest).length →
          idAt H k0.seed p0 rest ra.counter j = idAt H k0.seed p0 rest rb.counter j →
          leafAt (heights p0 rest) ra.counter j = leafAt (heights p0 rest) rb.counter j →
          SameContentAt H k0.seed p0 rest a b ra rb j :=
  no_identifier_leaf_signs_two_contents_honest_aux hK hp8 hseed hps hsum hc0 hid calls
    (fun c hc => Props.C10Life.reachable_honest H cfg hK ps k0.seed p0 htop c.aux (hreach c hc)) skN log h

/-- the aux-free session theorems are the special case `aux = none` (absent buffers are honest) -/
example {H : HashFn} {cfg : Config} {k0 : RefKey} {p0 : HssParam} (calls : List Call)
    (hnoaux : ∀ c ∈ calls, c.aux = none) : ∀ c ∈ calls, Honest H cfg k0.seed p0 c.aux :=
  fun c hc => by rw [hnoaux c hc]; exact honest_none H cfg k0.seed p0

end Props.C07Aux

#print axioms Props.C07Aux.keyFor_bytes
#print axioms Props.C07Aux.keyFor_of_parse
#print axioms Props.C07Aux.released_signature_layout_honest_aux
#print axioms Props.C07Aux.released_signature_layout_honest_aux_parsed
#print axioms Props.C07Aux.released_signature_layout_honest_aux_of_parse
#print axioms Props.C07Aux.released_signature_layout_reachable_aux
#print axioms Props.C07Aux.released_signature_layout_after_keygen
#print axioms Props.C07Aux.released_signature_spec_honest_aux
#print axioms Props.C07Aux.session_releases_honest_aux
#print axioms Props.C07Aux.no_position_signs_two_contents_honest_aux
#print axioms Props.C07Aux.no_identifier_leaf_signs_two_contents_honest_aux
#print axioms Props.C07Aux.no_position_signs_two_contents_reachable_aux
#print axioms Props.C07Aux.no_identifier_leaf_signs_two_contents_reachable_aux

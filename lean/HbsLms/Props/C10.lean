/-
C10 - the auxiliary buffer is only a cache: whatever it contains, key generation returns the same key pair and
signing the same signature and successor key as without auxiliary data; only buffers that carry a valid MAC for
this seed are ever read back.

Everything is stated for an arbitrary `H : HashFn`. MAC unforgeability is never assumed: where the contents of an
authenticated (MAC-verified) buffer matter, the assumption is the explicit hypothesis `CacheTrue` - "every non-zero
slot of a cached level holds the true node of the top tree".
-/
import HbsLms.Lemmas.AuxCache

namespace Props.C10

open Impl Generated Lemmas.AuxCache

/-! ## T1 - cache transparency (S-aux) -/

/-- The plain tree: `T H k r` is `T[r]` computed without any cache. -/
theorem T_def (H : HashFn) (k : LmsKey) (r : Nat) : T H k r = (treeNode H k r none).1 := rfl

/-- The invariant, spelled out. -/
theorem cacheTrue_def (H : HashFn) (k : LmsKey) (e : ExpAux) :
    CacheTrue H k e ↔
      ∀ level layer, e.layers.getD level none = some layer →
        layer.length = H.n * 2 ^ level ∧
        ∀ j, j < 2 ^ level →
          Bytes.allZero (Bytes.slice layer (j * H.n) H.n) = true ∨
          Bytes.slice layer (j * H.n) H.n = T H k (2 ^ level + j) := Iff.rfl

/-- **S-aux.** For a node `r` at depth `h - fuel` (`2^(h-fuel) ≤ r < 2^(h-fuel+1)`), `getTreeElement` through a cache
that satisfies the invariant returns exactly the node of the plain tree, and leaves a cache that satisfies the
invariant again. -/
theorem cache_transparent (H : HashFn) (k : LmsKey) (fuel r : Nat) (e : ExpAux) (hc : CacheTrue H k e)
    (hf : fuel ≤ k.lms.h) (h1 : 2 ^ (k.lms.h - fuel) ≤ r) (h2 : r < 2 ^ (k.lms.h - fuel + 1)) :
    ∃ e', getTreeElement H k fuel r (some e) = (T H k r, some e') ∧ CacheTrue H k e' := by
  obtain ⟨a', h, g, s⟩ := getTreeElement_transparent H k fuel r (some e) (auxGood_some hc) hf h1 h2
  cases a' with
  | none => simp at s
  | some e' => exact ⟨e', h, g e' rfl⟩

/-- `treeNode` for any valid node number `1 ≤ r < 2^(h+1)`: same node with a true cache as without a cache. -/
theorem treeNode_through_cache (H : HashFn) (k : LmsKey) (r : Nat) (e : ExpAux) (hc : CacheTrue H k e)
    (h1 : 1 ≤ r) (h2 : r < 2 ^ (k.lms.h + 1)) :
    (treeNode H k r (some e)).1 = (treeNode H k r none).1 ∧
    ∃ e', (treeNode H k r (some e)).2 = some e' ∧ CacheTrue H k e' := by
  obtain ⟨a', h, g, s⟩ := treeNode_transparent H k r (some e) (auxGood_some hc) h1 h2
  cases a' with
  | none => simp at s
  | some e' => exact ⟨by rw [h]; rfl, e', by rw [h], g e' rfl⟩

/-- the two cache operations: a hit under the invariant is the true node; storing the true node keeps the invariant -/
theorem cache_hit_is_true_node {H : HashFn} {k : LmsKey} {e : ExpAux} (hc : CacheTrue H k e) {r l : Nat}
    (h1 : 2 ^ l ≤ r) (h2 : r < 2 ^ (l + 1)) {v : Bytes} (hv : hss_extract_aux_data H.n e r = some v) :
    v = T H k r := extract_sound hc h1 h2 hv

theorem cache_store_keeps_invariant {H : HashFn} {k : LmsKey} {e : ExpAux} (hc : CacheTrue H k e) {r l : Nat}
    (h1 : 2 ^ l ≤ r) (h2 : r < 2 ^ (l + 1)) (hlen : (T H k r).length = H.n) :
    CacheTrue H k (hss_save_aux_data H.n e r (T H k r)) := save_preserves hc h1 h2 rfl hlen

/-! ## T2 - fresh buffers -/

/-- The expanded view of a zeroed and marked buffer: every cached level consists of zero bytes only. -/
theorem fresh_buffer_layers_zero (H : HashFn) (cfg : Config) (L level : Nat) (e : ExpAux)
    (h : hss_expand_aux_data H cfg (hss_store_aux_marker (Bytes.zeros L) level) none = some e) :
    ∀ lv layer, e.layers.getD lv none = some layer → ∀ x ∈ layer, x = 0 :=
  fresh_layers_zero H cfg L level e h

/-- ... and if the levels announced by its level word fit into the buffer, it satisfies the invariant for every key -/
theorem fresh_buffer_invariant (H : HashFn) (cfg : Config) (k : LmsKey) (L level : Nat) (e : ExpAux)
    (h : hss_expand_aux_data H cfg (hss_store_aux_marker (Bytes.zeros L) level) none = some e)
    (hfit : 4 + ((List.range (cfg.maxTreeHeight + 1)).map fun i =>
        if (e.level >>> i) &&& 1 == 0 then 0 else H.n <<< i).foldl (· + ·) 0 ≤ L) : CacheTrue H k e :=
  fresh_cacheTrue H cfg k L level e h hfit

/-- The non-"used" branch of `getExpandedAuxData`: a non-empty buffer whose marker byte says "no aux data", of any
length and with any content, yields a view satisfying the invariant (for build configurations with tree heights
≤ 30; the library supports ≤ 25). The level word chosen by `hss_optimal_aux_level` always fits. -/
theorem unmarked_buffer_invariant (H : HashFn) (cfg : Config) (hK : cfg.maxTreeHeight ≤ 30) (buf : Bytes)
    (hne : buf.isEmpty = false) (hun : hss_is_aux_data_used buf = false) (seed : Bytes) (p0 : HssParam) :
    ∀ e, (getExpandedAuxData H cfg (some buf) seed p0.lms.h).1 = some e → CacheTrue H (topKey H seed p0) e :=
  fresh_auxOK H cfg hK buf hne hun seed p0

/-! ## T4 - only authenticated buffers are read back -/

/-- total number of bytes covered by the MAC for a level word: `4 + Σ` sizes of the announced levels -/
theorem auxTotal_def (H : HashFn) (cfg : Config) (level : Nat) :
    auxTotal H cfg level = 4 + ((List.range (cfg.maxTreeHeight + 1)).map fun i =>
        if (level >>> i) &&& 1 == 0 then 0 else H.n <<< i).foldl (· + ·) 0 := rfl

/-- If `hss_expand_aux_data` with a seed hands out a view, the buffer was marked as used, is long enough for
everything its level word announces, and the bytes behind that are exactly the MAC keyed with this seed. -/
theorem only_authenticated_read_back (H : HashFn) (cfg : Config) (aux seed : Bytes) (e : ExpAux)
    (h : hss_expand_aux_data H cfg aux (some seed) = some e) :
    hss_is_aux_data_used aux = true ∧
    readAt aux 4 0 = some e.head ∧ e.level = e.head.toNat ∧
    aux.length ≥ auxTotal H cfg e.level ∧
    auxHmac H (auxSeedDerive H seed) (aux.take (auxTotal H cfg e.level)) = aux.drop (auxTotal H cfg e.level) := by
  obtain ⟨hu, lw, hlw, hmac, rfl⟩ := expand_some h
  obtain ⟨h1, h2⟩ := hmac seed rfl
  exact ⟨hu, hlw, rfl, h1, h2⟩

/-- In the "used" branch the visible buffer is returned unchanged and nothing is cut off; the only view that can come
out of it is the authenticated one. -/
theorem used_buffer_unchanged (H : HashFn) (cfg : Config) (buf seed : Bytes) (h0 : Nat)
    (hu : hss_is_aux_data_used buf = true) :
    getExpandedAuxData H cfg (some buf) seed h0 = (hss_expand_aux_data H cfg buf (some seed), some buf, []) := by
  unfold getExpandedAuxData
  have hne : buf.isEmpty = false := by
    cases buf with
    | nil => simp [hss_is_aux_data_used] at hu
    | cons x t => rfl
  simp [hne, hu]

/-- Buffers that are absent, empty, or fail authentication are never read: no view at all is handed to the tree code. -/
theorem unauthenticated_not_read (H : HashFn) (cfg : Config) (buf seed : Bytes) (h0 : Nat)
    (hu : hss_is_aux_data_used buf = true)
    (hbad : ¬ (buf.length ≥ auxTotal H cfg (Bytes.toNat (Bytes.slice buf 0 4)) ∧
      auxHmac H (auxSeedDerive H seed) (buf.take (auxTotal H cfg (Bytes.toNat (Bytes.slice buf 0 4)))) =
        buf.drop (auxTotal H cfg (Bytes.toNat (Bytes.slice buf 0 4))))) :
    (getExpandedAuxData H cfg (some buf) seed h0).1 = none := by
  rw [used_buffer_unchanged H cfg buf seed h0 hu]
  cases he : hss_expand_aux_data H cfg buf (some seed) with
  | none => rfl
  | some e =>
    exfalso
    obtain ⟨_, h1, h2, h3, h4⟩ := only_authenticated_read_back H cfg buf seed e he
    obtain ⟨_, h5, _⟩ := Lemmas.readAt_some h1
    rw [h2, h5] at h3 h4
    exact hbad ⟨h3, h4⟩

/-! ## T3 - key generation and signing do not depend on the aux buffer -/

/-- The view handed to the tree code satisfies the invariant in every case, provided it does so in the one case where
foreign bytes are read back: a buffer that is marked as used and whose MAC verified for this seed. -/
theorem auxOK_of_authenticated_true (H : HashFn) (cfg : Config) (hK : cfg.maxTreeHeight ≤ 30)
    (aux : Option Bytes) (seed : Bytes) (p0 : HssParam)
    (hused : ∀ buf e, aux = some buf → hss_is_aux_data_used buf = true →
      hss_expand_aux_data H cfg buf (some seed) = some e → CacheTrue H (topKey H seed p0) e) :
    AuxOK H cfg aux seed p0 := by
  cases aux with
  | none => exact auxGood_none _ _
  | some buf =>
    by_cases hne : buf.isEmpty = true
    · unfold AuxOK getExpandedAuxData
      simp only [hne, if_true]
      exact auxGood_none _ _
    · by_cases hu : hss_is_aux_data_used buf = true
      · unfold AuxOK
        rw [used_buffer_unchanged H cfg buf seed _ hu]
        intro e he
        exact hused buf e rfl hu he
      · exact fresh_auxOK H cfg hK buf (by simpa using hne) (by simpa using hu) seed p0

/-- LMS signing (authentication path) through a true cache: same signature bytes, same `Err`, same panic as without
aux data; the cache left behind is true again. -/
theorem lmsSign_same_signature (H : HashFn) (cfg : Config) (k : LmsKey) (q : Nat) (msg C : Bytes) (e : ExpAux)
    (hc : CacheTrue H k e) :
    (lmsSign H cfg k q msg C (some e)).map (Option.map Prod.fst) =
      (lmsSign H cfg k q msg C none).map (Option.map Prod.fst) ∧
    ∀ sig a, lmsSign H cfg k q msg C (some e) = .ok (some (sig, a)) → ∃ e', a = some e' ∧ CacheTrue H k e' := by
  obtain ⟨a', h, g, s⟩ := lmsSign_transparent H cfg k q msg C (some e) (auxGood_some hc)
  rw [h]
  constructor
  · cases lmsSign H cfg k q msg C none with
    | error f => rfl
    | ok r => cases r <;> rfl
  · intro sig a hs
    cases hn : lmsSign H cfg k q msg C none with
    | error f => rw [hn] at hs; cases hs
    | ok r =>
      rw [hn] at hs
      cases r with
      | none => cases hs
      | some p =>
        simp only [Except.map, Option.map, Except.ok.injEq, Option.some.injEq, Prod.mk.injEq] at hs
        cases a' with
        | none => simp at s
        | some e' => exact ⟨e', hs.2.symm, g e' rfl⟩

/-- **Key generation.** Under the invariant, `hss_keygen` returns the same `(signing key, verifying key)` - or the same
error, or the same panic - as without auxiliary data. -/
theorem keygen_transparent (H : HashFn) (cfg : Config) (ps : List HssParam) (seed : Bytes) (aux : Option Bytes)
    (hok : ∀ p0, keygenTop H cfg ps = some p0 → AuxOK H cfg aux seed p0) :
    (hssKeygen H cfg ps seed aux).map (·.result) = (hssKeygen H cfg ps seed none).map (·.result) :=
  hssKeygen_transparent H cfg ps seed aux hok

/-- **Signing.** Under the invariant, `hss_sign` returns the same signature (or error, or panic) and hands the same
successor key to the update callback as without auxiliary data. -/
theorem sign_transparent (H : HashFn) (cfg : Config) (msg sk : Bytes) (cb : Bytes → Bool) (aux : Option Bytes)
    (hok : ∀ k, RefKey.parse H.n sk = some k → ∀ p0, signTop H cfg k = some p0 → AuxOK H cfg aux k.seed p0) :
    (hssSign H cfg msg sk cb aux).map (fun o => (o.result, o.trace)) =
      (hssSign H cfg msg sk cb none).map (fun o => (o.result, o.trace)) :=
  hssSign_transparent H cfg msg sk cb aux hok

/-- **C10, key generation.** Whatever the auxiliary buffer contains (absent, empty, unmarked with arbitrary content,
marked with a wrong MAC, marked with a correct MAC): the key pair is the one generated without auxiliary data. The only
assumption concerns buffers that were accepted by the MAC check for this seed: their non-zero slots hold true nodes of
the top tree (this replaces MAC unforgeability, which is not assumed). -/
theorem C10_keygen (H : HashFn) (cfg : Config) (hK : cfg.maxTreeHeight ≤ 30) (ps : List HssParam) (seed : Bytes)
    (aux : Option Bytes)
    (hused : ∀ p0 buf e, keygenTop H cfg ps = some p0 → aux = some buf → hss_is_aux_data_used buf = true →
      hss_expand_aux_data H cfg buf (some seed) = some e → CacheTrue H (topKey H seed p0) e) :
    (hssKeygen H cfg ps seed aux).map (·.result) = (hssKeygen H cfg ps seed none).map (·.result) :=
  keygen_transparent H cfg ps seed aux fun p0 hp0 =>
    auxOK_of_authenticated_true H cfg hK aux seed p0 fun buf e => hused p0 buf e hp0

/-- **C10, signing.** Same for `hss_sign`: signature / error / panic and the successor key handed to the callback do
not depend on the auxiliary buffer. -/
theorem C10_sign (H : HashFn) (cfg : Config) (hK : cfg.maxTreeHeight ≤ 30) (msg sk : Bytes) (cb : Bytes → Bool)
    (aux : Option Bytes)
    (hused : ∀ k p0 buf e, RefKey.parse H.n sk = some k → signTop H cfg k = some p0 → aux = some buf →
      hss_is_aux_data_used buf = true →
      hss_expand_aux_data H cfg buf (some k.seed) = some e → CacheTrue H (topKey H k.seed p0) e) :
    (hssSign H cfg msg sk cb aux).map (fun o => (o.result, o.trace)) =
      (hssSign H cfg msg sk cb none).map (fun o => (o.result, o.trace)) :=
  sign_transparent H cfg msg sk cb aux fun k hk p0 hp0 =>
    auxOK_of_authenticated_true H cfg hK aux k.seed p0 fun buf e => hused k p0 buf e hk hp0

/-- Corollary (no hypothesis about contents at all): every buffer that is not marked as used - empty, or first byte 0
followed by anything, of any length - is transparent for key generation ... -/
theorem keygen_unmarked_buffer (H : HashFn) (cfg : Config) (hK : cfg.maxTreeHeight ≤ 30) (ps : List HssParam)
    (seed buf : Bytes) (hun : hss_is_aux_data_used buf = false) :
    (hssKeygen H cfg ps seed (some buf)).map (·.result) = (hssKeygen H cfg ps seed none).map (·.result) :=
  C10_keygen H cfg hK ps seed (some buf) fun _ b _ _ hb hu _ => by
    cases hb; rw [hun] at hu; cases hu

/-- ... and for signing. -/
theorem sign_unmarked_buffer (H : HashFn) (cfg : Config) (hK : cfg.maxTreeHeight ≤ 30) (msg sk : Bytes)
    (cb : Bytes → Bool) (buf : Bytes) (hun : hss_is_aux_data_used buf = false) :
    (hssSign H cfg msg sk cb (some buf)).map (fun o => (o.result, o.trace)) =
      (hssSign H cfg msg sk cb none).map (fun o => (o.result, o.trace)) :=
  C10_sign H cfg hK msg sk cb (some buf) fun _ _ b _ _ _ hb hu _ => by
    cases hb; rw [hun] at hu; cases hu

/-- Corollary: a buffer that is marked as used but does not carry the MAC for this seed (wrong seed, truncated,
tampered) is transparent as well - it is never read. -/
theorem keygen_bad_mac_buffer (H : HashFn) (cfg : Config) (hK : cfg.maxTreeHeight ≤ 30) (ps : List HssParam)
    (seed buf : Bytes) (hbad : hss_expand_aux_data H cfg buf (some seed) = none) :
    (hssKeygen H cfg ps seed (some buf)).map (·.result) = (hssKeygen H cfg ps seed none).map (·.result) :=
  C10_keygen H cfg hK ps seed (some buf) fun _ b _ _ hb _ he => by
    cases hb; rw [hbad] at he; cases he

theorem sign_bad_mac_buffer (H : HashFn) (cfg : Config) (hK : cfg.maxTreeHeight ≤ 30) (msg sk : Bytes)
    (cb : Bytes → Bool) (buf : Bytes)
    (hbad : ∀ k, RefKey.parse H.n sk = some k → hss_expand_aux_data H cfg buf (some k.seed) = none) :
    (hssSign H cfg msg sk cb (some buf)).map (fun o => (o.result, o.trace)) =
      (hssSign H cfg msg sk cb none).map (fun o => (o.result, o.trace)) :=
  C10_sign H cfg hK msg sk cb (some buf) fun k _ b _ hk _ hb _ he => by
    cases hb; rw [hbad k hk] at he; cases he

end Props.C10

#print axioms Props.C10.cache_transparent
#print axioms Props.C10.treeNode_through_cache
#print axioms Props.C10.fresh_buffer_layers_zero
#print axioms Props.C10.fresh_buffer_invariant
#print axioms Props.C10.unmarked_buffer_invariant
#print axioms Props.C10.only_authenticated_read_back
#print axioms Props.C10.used_buffer_unchanged
#print axioms Props.C10.unauthenticated_not_read
#print axioms Props.C10.auxOK_of_authenticated_true
#print axioms Props.C10.lmsSign_same_signature
#print axioms Props.C10.keygen_transparent
#print axioms Props.C10.sign_transparent
#print axioms Props.C10.C10_keygen
#print axioms Props.C10.C10_sign
#print axioms Props.C10.keygen_unmarked_buffer
#print axioms Props.C10.sign_unmarked_buffer
#print axioms Props.C10.keygen_bad_mac_buffer
#print axioms Props.C10.sign_bad_mac_buffer

/-
C01 - every signature the library releases verifies under the matching public key (completeness).
All statements are for an arbitrary hash function `H : HashFn` (a function with a fixed output length):
no cryptographic assumption is used.
-/
import HbsLms.Lemmas.Complete
import HbsLms.Props.C04

namespace Props.C01

open Impl Lemmas Lemmas.Complete

/-- L1a. Hash chains compose: `a` steps from 0, then from step `a` up to step `m`, is `m` steps from 0. -/
theorem chain_compose (H : HashFn) (I qb : Bytes) (i : Nat) (x : Bytes) (a m : Nat) (h : a ≤ m) :
    chain H I qb i (chain H I qb i x 0 a) a m = chain H I qb i x 0 m :=
  Lemmas.Complete.chain_compose H I qb i x a m h

/-- L1b. LM-OTS completeness: for a good parameter row, any identifier `I`, leaf `q`, seed, randomizer `C` of the hash
length and message, whatever `lmotsSign` returns parses back with the same parameter row and the verifier's
public-key candidate is exactly the LM-OTS public key of that leaf. -/
theorem lmots_complete (H : HashFn) (I : Bytes) (q : Nat) (seed : Bytes) (prm : LmotsParam) (C msg sigBytes : Bytes)
    (hg : OtsRowGood H.n prm = true) (ht : Params.lmotsGetFromType H.n prm.typeId = some prm) (hC : C.length = H.n)
    (hs : lmotsSign H I (Bytes.u32be q) seed prm C msg = .ok sigBytes) :
    ∃ s, InMemLmotsSig.parse H.n sigBytes = some s ∧ s.param = prm ∧
      lmotsCandidate H s I q msg
        = .ok (lmotsPublicKey H I (Bytes.u32be q) prm (lmotsPrivateKey H I (Bytes.u32be q) seed prm)) :=
  Lemmas.Complete.lmots_complete H I q seed prm C msg sigBytes hg ht hC hs

/-- `lmotsSign` itself never faults for a good row and a randomizer of the hash length. -/
theorem lmotsSign_total (H : HashFn) (I qb seed : Bytes) (prm : LmotsParam) (C msg : Bytes)
    (hg : OtsRowGood H.n prm = true) (hC : C.length = H.n) : ∃ sig, lmotsSign H I qb seed prm C msg = .ok sig :=
  ⟨_, lmotsSign_eq H I qb seed prm C msg hg hC⟩

/-- L2a. Without a cache the library's tree-node computation is the plain recursive Merkle tree
`T d r = H(I ‖ u32 r ‖ D_INTR ‖ T (d-1) (2r) ‖ T (d-1) (2r+1))`, `T 0 r = leafNode r`, for every node `r` on level `j ≤ h`. -/
theorem treeNode_is_T (H : HashFn) (k : LmsKey) (r j : Nat) (hj : j ≤ k.lms.h) (hlo : 2 ^ j ≤ r) (hhi : r < 2 ^ (j + 1)) :
    treeNode H k r none = (T H k (k.lms.h - j) r, none) := treeNode_none H k r j hj hlo hhi

/-- L2b. The authentication path collected by `lmsSign` (no cache) is the list of siblings `T i ((2^h+q)/2^i xor 1)`. -/
theorem authPath_is_siblings (H : HashFn) (k : LmsKey) (q : Nat) (hq : q < 2 ^ k.lms.h) :
    (List.range k.lms.h).foldl (fun (acc : List Bytes × Option ExpAux) i =>
      let (v, a) := treeNode H k (((2 ^ k.lms.h + q) / 2 ^ i) ^^^ 1) acc.2
      (acc.1 ++ [v], a)) ([], none)
    = ((List.range k.lms.h).map fun i => T H k i (((2 ^ k.lms.h + q) / 2 ^ i) ^^^ 1), none) :=
  authPath_fold H k q hq

/-- L2c. Merkle completeness: climbing from the leaf value `T[2^h + q]` along the authentication path reaches the
root `T[1]`, for every height `h` and every `q < 2^h`. -/
theorem climb_reaches_root (H : HashFn) (k : LmsKey) (q : Nat) (hq : q < 2 ^ k.lms.h) :
    climb H k.I ((List.range k.lms.h).map fun i => T H k i (((2 ^ k.lms.h + q) / 2 ^ i) ^^^ 1)).flatten
      (k.lms.h + 1) (2 ^ k.lms.h + q) 0 (T H k 0 (2 ^ k.lms.h + q)) = .ok (T H k k.lms.h 1) :=
  Lemmas.Complete.climb_reaches_root H k q hq

/-- L3. LMS completeness: for a key whose parameters are table rows and whose identifier has 16 bytes, every
randomizer of the hash length and every message: whatever `lmsSign` (no cache) releases parses, the serialised public
key parses, and the signature verifies under it. -/
theorem lms_complete (H : HashFn) (cfg : Config) (k : LmsKey) (q : Nat) (msg C sig : Bytes) (a : Option ExpAux)
    (hots : Params.lmotsGetFromType H.n k.ots.typeId = some k.ots)
    (hlms : Params.lmsGetFromType k.lms.typeId = some k.lms) (hI : k.I.length = 16) (hC : C.length = H.n)
    (hs : lmsSign H cfg k q msg C none = .ok (some (sig, a))) :
    ∃ s p, InMemLmsSig.parse H.n sig = some s ∧
      InMemLmsPk.parse H.n (lmsPublicKeyBytes k (treeNode H k 1 none).1) = some p ∧
      lmsVerify H s p msg = .ok true :=
  Lemmas.Complete.lms_complete H cfg k q msg C sig a ⟨hots, hlms, hI⟩ hC hs

/-- L3, existence half: under the three capacity conditions `lmsSign` does release a signature for every leaf of
the tree (so L3 is not vacuous). -/
theorem lmsSign_releases (H : HashFn) (cfg : Config) (k : LmsKey) (q : Nat) (msg C : Bytes)
    (hots : Params.lmotsGetFromType H.n k.ots.typeId = some k.ots) (hC : C.length = H.n) (hq : q < 2 ^ k.lms.h)
    (h1 : k.ots.p ≤ cfg.maxChains) (h2 : k.lms.h ≤ cfg.maxTreeHeight)
    (h3 : Generated.lms_signature_length H.n k.ots.p k.lms.h ≤ cfg.maxLmsSigLen) :
    ∃ sig, lmsSign H cfg k q msg C none = .ok (some (sig, none)) :=
  ⟨_, lmsSign_ok H cfg k q msg C (ots_row_good hots) hC hq h1 h2 h3⟩

/-- L4a. The signed public keys built by `expandPrivateKey` (no aux data) form a chain: level 0 is the tree derived
from the blob's seed, every level signs the serialised public key of the next one with a leaf inside its tree, and
all keys carry table parameters. (`sigsOf`, `pkBytes`, `qsOk` are the closed forms from `Lemmas/CompleteHss`.) -/
theorem expandPrivateKey_chain {H : HashFn} {cfg : Config} {k : RefKey} {ex : Expanded} {e : Option ExpAux}
    (h : expandPrivateKey H cfg k none = .ok (some (ex, e))) :
    ∃ ps p0 q0 children, paramsOfBytes cfg H.n k.params = some ps ∧ ps.head? = some p0 ∧ e = none ∧
      ex = ⟨⟨rootKey H k.seed p0, q0⟩ :: children, children.map (fun c => pkBytes H c.key),
            sigsOf H ⟨rootKey H k.seed p0, q0⟩ children⟩ ∧
      children.length + 1 = ps.length ∧ (∀ c ∈ children, GoodKey H.n c.key) ∧
      qsOk ⟨rootKey H k.seed p0, q0⟩ children :=
  expandPrivateKey_spec h

/-- L4b. The verifier accepts every such chain followed by a signature of the bottom level: the public key
serialised inside signed public key `i` is the key that verifies level `i+1`. -/
theorem hssVerify_chain (H : HashFn) (cfg : Config) (top : Level) (children : List Level) (msg C : Bytes)
    (gt : GoodKey H.n top.key) (hall : ∀ c ∈ children, GoodKey H.n c.key) (hqs : qsOk top children)
    (hC : C.length = H.n) (hqb : (lastLevel top children).q < 2 ^ (lastLevel top children).key.lms.h)
    (hL : children.length + 1 ≤ cfg.maxLevels) (hL32 : children.length + 1 < 2 ^ 32) :
    hssVerify H cfg msg
      (Bytes.u32be children.length ++ spkBytes H top children ++
        lmsSigBytes H (lastLevel top children).key (lastLevel top children).q msg C)
      (Bytes.u32be (children.length + 1) ++ pkBytes H top.key) = .ok true :=
  Lemmas.Complete.hssVerify_chain H cfg top children msg C gt hall hqs hC hqb hL hL32

/-- L4c. HSS completeness on the level of the parsed key: for every hash function, build configuration, parameter
list, seed, message and counter `c` (any value): if key generation (no aux data) returns a key pair and
`signPrepare` (no aux data) assembles a signature for the key blob with the same parameter bytes and seed and
counter `c`, then that signature verifies under the verifying key from key generation. -/
theorem hss_complete_parsed (H : HashFn) (cfg : Config) (ps0 : List HssParam) (seed msg : Bytes) (c : Nat)
    (skb vk : Bytes) (a0 : Option Bytes) (r0 : Bytes) (pb : Bytes) (hs : List Nat) (sig : Bytes) (a : Option Bytes)
    (r : Bytes)
    (hk : hssKeygen H cfg ps0 seed none = .ok ⟨some (skb, vk), a0, r0⟩)
    (hpb : bytesOfParams cfg H.n ps0 = .ok (some pb))
    (hsg : signPrepare H cfg msg ⟨c, pb, seed⟩ none = .ok (.ready hs sig a r)) :
    hssVerify H cfg msg sig vk = .ok true := by
  obtain ⟨pb', ps, p0, hpb', _, hps, hp0, hvk⟩ := hssKeygen_spec hk
  rw [hpb] at hpb'
  simp only [Except.ok.injEq, Option.some.injEq] at hpb'
  subst hpb'
  obtain ⟨ps', p0', hps', hp0', hv⟩ := signPrepare_verifies hsg
  simp only at hps'
  rw [hps] at hps'
  simp only [Option.some.injEq] at hps'
  subst hps'
  rw [hp0] at hp0'
  simp only [Option.some.injEq] at hp0'
  subst hp0'
  rw [hvk]
  exact hv

/-- the key blob of `hssKeygen` with its counter replaced by `c` -/
def blobWithCounter (skb : Bytes) (c : Nat) : Bytes := Bytes.u64be c ++ skb.drop 8

/-- C01, end to end on byte strings. For every hash function `H`, build configuration, parameter list, seed of
the hash length, message, callback and counter value `c`: if `hssKeygen` (no aux data) returns `(sk, vk)` and
`hssSign` (no aux data), run on `sk` with its 8 counter bytes set to `c`, releases a signature, then `hssVerify`
accepts that signature for the same message under `vk`. -/
theorem released_signature_verifies (H : HashFn) (cfg : Config) (ps0 : List HssParam) (seed msg : Bytes) (c : Nat)
    (cb : Bytes → Bool) (skb vk : Bytes) (a0 : Option Bytes) (r0 : Bytes) (o : SignOutcome) (sig : Bytes)
    (hseed : seed.length = H.n)
    (hk : hssKeygen H cfg ps0 seed none = .ok ⟨some (skb, vk), a0, r0⟩)
    (hsign : hssSign H cfg msg (blobWithCounter skb c) cb none = .ok o)
    (hres : o.result = some sig) :
    hssVerify H cfg msg sig vk = .ok true := by
  obtain ⟨pb, ps, p0, hpb, hskb, _, _, _⟩ := hssKeygen_spec hk
  rcases Props.C04.hssSign_cases hsign with ⟨_, rfl⟩ | ⟨k, p, hparse, hprep, rfl⟩
  · simp at hres
  · -- the parsed key has the parameter bytes and the seed of the generated key
    obtain ⟨hlen, _, _, hkeq⟩ := parse_some hparse
    have h8 : (Bytes.u64be c).length = 8 := be_length 8 c
    have h8' : (Bytes.u64be 0).length = 8 := be_length 8 0
    have hdrop : skb.drop 8 = pb ++ seed := by
      rw [hskb]
      simp only [RefKey.bytes, List.append_assoc]
      exact List.drop_left' h8'
    have hblob : blobWithCounter skb c = Bytes.u64be c ++ (pb ++ seed) := by
      rw [blobWithCounter, hdrop]
    rw [hblob] at hlen hkeq
    have hpl : pb.length = 8 := by
      simp only [List.length_append, h8, hseed] at hlen
      omega
    have hd8 : (Bytes.u64be c ++ (pb ++ seed)).drop 8 = pb ++ seed := List.drop_left' h8
    have hd16 : (Bytes.u64be c ++ (pb ++ seed)).drop 16 = seed := by
      have : (Bytes.u64be c ++ (pb ++ seed)) = (Bytes.u64be c ++ pb) ++ seed := by simp
      rw [this]
      exact List.drop_left' (by simp [h8, hpl])
    have hparams : k.params = pb := by
      rw [hkeq]
      simp only [hd8]
      rw [List.take_append_of_le_length (by omega), List.take_of_length_le (by omega)]
    have hseedk : k.seed = seed := by
      rw [hkeq]
      simp only [hd16]
      exact List.take_of_length_le (by omega)
    have hk' : k = ⟨k.counter, pb, seed⟩ := by
      cases k; simp only at hparams hseedk; subst hparams; subst hseedk; rfl
    cases p with
    | failed a r => simp [signCommit] at hres
    | ready hs sg a r =>
      have hsg : sg = sig := by
        simp only [signCommit] at hres
        split at hres
        · simp at hres
        · split at hres
          · simp at hres
          · simpa using hres
      subst hsg
      rw [hk'] at hprep
      exact hss_complete_parsed H cfg ps0 seed msg k.counter skb vk a0 r0 pb hs sg a r hk hpb hprep

end Props.C01

#print axioms Props.C01.chain_compose
#print axioms Props.C01.lmots_complete
#print axioms Props.C01.lmotsSign_total
#print axioms Props.C01.treeNode_is_T
#print axioms Props.C01.authPath_is_siblings
#print axioms Props.C01.climb_reaches_root
#print axioms Props.C01.lms_complete
#print axioms Props.C01.lmsSign_releases
#print axioms Props.C01.expandPrivateKey_chain
#print axioms Props.C01.hssVerify_chain
#print axioms Props.C01.hss_complete_parsed
#print axioms Props.C01.released_signature_verifies

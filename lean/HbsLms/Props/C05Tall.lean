/-
C05 / C03 / C13 for ALL key shapes, including the tall ones (`64 ≤ hs.sum`, e.g. three H25 trees = 75, which the
library accepts): the `hs.sum ≤ 63` hypotheses of Props/C03.lean, Props/C05.lean and Props/C13.lean are removed by
replacing the number of leaves `2 ^ hs.sum` with the capacity the model implements,

    capacity hs = 2 ^ min hs.sum 64 = min (leavesTotal hs) (2 ^ 64).

What is true for tall shapes (all proved below, no hypothesis on `hs.sum` unless shown):
* successor / wipe: the key advances `c → c + 1` while `c + 1 < 2^64` and is wiped by the signing call made at counter
  `2^64 - 1`; every one of the `2^64` values of the 8-byte counter is released exactly once (`2^64 - 1` IS used);
* histories: released counters are `0, 1, …, k-1` with `k = min (accepts ops) (capacity hs)`; leaf vectors of released
  signatures never repeat (`tall_no_leaf_vector_released_twice`); the key is wiped exactly when `capacity hs`
  signatures were released;
* for `65 ≤ hs.sum` the key is wiped long before all leaves are used (`all_leaves_used_iff_wiped` is FALSE there:
  `tall_never_uses_all_leaves`, `tall_wiped_without_all_leaves_used`);
* lifetime: `lifetimeOf` reports `min (2 ^ hs.sum - c) (2^64 - 1)`, the closed form saturated at `u64::MAX`.  Hence
  - `hs.sum = 64`: a fresh key reports `2^64 - 1` although it can release `2^64` signatures; the first signature
    does not lower the report; from counter 1 on it is exact;
  - `65 ≤ hs.sum`: the report is the constant `2^64 - 1` for EVERY counter: it never decreases, the key at its
    last counter still reports `2^64 - 1` (not 1), and `lifetime + released` is `2^64 - 1 + released`, not a total.
  The report is never 0 while the key can sign, and under-reports the true remaining count by at most one.
* sessions of `Impl.hssSign` calls never reuse a leaf, for every shape (`session_never_reuses_a_leaf_all`).
Proofs of the helper lemmas are in Lemmas/Tall.lean.
-/
import HbsLms.Lemmas.Tall

namespace Props.C05Tall

open Impl Spec Lemmas

/-! ### T1: capacity -/

/-- `capacity hs = 2 ^ min hs.sum 64` (definition in Lemmas/Tall.lean) is the number of leaves capped at the number of
values of the 64-bit counter. -/
theorem capacity_eq_min_leaves_u64 (hs : List Nat) : capacity hs = min (leavesTotal hs) (2 ^ 64) :=
  Lemmas.capacity_eq_min hs

/-- for the shapes of Props/C03, C05, C13 (total height at most 63) the capacity is the number of leaves -/
theorem capacity_le63 (hs : List Nat) (hsum : hs.sum ≤ 63) : capacity hs = leavesTotal hs :=
  Lemmas.capacity_le63 hs hsum

/-- also for total height exactly 64 -/
theorem capacity_le64 (hs : List Nat) (hsum : hs.sum ≤ 64) : capacity hs = leavesTotal hs :=
  Lemmas.capacity_le64 hs hsum

/-- closed form for tall shapes: all `2^64` counter values -/
theorem capacity_tall (hs : List Nat) (hsum : 64 ≤ hs.sum) : capacity hs = 2 ^ 64 :=
  Lemmas.capacity_tall hs hsum

theorem capacity_le_leaves (hs : List Nat) : capacity hs ≤ leavesTotal hs := Lemmas.capacity_le_leaves hs

/-- from total height 65 on there are strictly more leaves than the key can ever release -/
theorem capacity_lt_leaves (hs : List Nat) (hsum : 65 ≤ hs.sum) : capacity hs < leavesTotal hs :=
  Lemmas.capacity_lt_leaves hs hsum

/-- `capacity hs` IS the number of signatures a fresh key can release: every history releases
`min (accepts ops) (capacity hs)` signatures - never more than the capacity, and exactly the capacity as soon as that
many signing operations were accepted (and some history does accept that many). -/
theorem capacity_is_max_released (hs : List Nat) :
    (∀ ops, (run hs (.live 0) ops).2.length = min (accepts ops) (capacity hs)) ∧
    (∀ ops, (run hs (.live 0) ops).2.length ≤ capacity hs) ∧
    (∃ ops, (run hs (.live 0) ops).2.length = capacity hs) := by
  have h1 : ∀ ops, (run hs (.live 0) ops).2.length = min (accepts ops) (capacity hs) := by
    intro ops
    rw [Lemmas.run_fresh_all hs ops]
    simp only [List.length_range]
  refine ⟨h1, fun ops => ?_, ⟨List.replicate (capacity hs) .signAccept, ?_⟩⟩
  · rw [h1]; exact Nat.min_le_right _ _
  · rw [h1, Lemmas.accepts_replicate, Nat.min_self]

/-! ### T2: successor and wipe (C13) -/

/-- Successor for EVERY shape: `c+1` until the last counter `capacity hs - 1`, the wiped state (`none`) after it. -/
theorem successor_all (hs : List Nat) (c : Nat) :
    incrementCounter hs c = if c + 1 < capacity hs then some (c + 1) else none :=
  Lemmas.incrementCounter_all hs c

/-- all-shape version of `Props.C13.increment_wipes_exactly_at_last_leaf`: the wiped key is what `RefKey.increment`
yields exactly when the last counter below the capacity was used -/
theorem increment_wipes_exactly_at_capacity (k : RefKey) (n : Nat) (hs : List Nat) :
    k.increment n hs
      = if k.counter + 1 < capacity hs then { k with counter := k.counter + 1 } else RefKey.wiped n := by
  unfold RefKey.increment
  rw [successor_all hs k.counter]
  by_cases h : k.counter + 1 < capacity hs <;> simp [h]

/-- tall shapes: the key is wiped by the signing call made at counter `2^64 - 1` (`u64::MAX`), not earlier and not
later - the last counter value IS used for a signature -/
theorem tall_increment_wipes_exactly_at_u64_max (k : RefKey) (n : Nat) (hs : List Nat) (hsum : 64 ≤ hs.sum) :
    k.increment n hs
      = if k.counter < 2 ^ 64 - 1 then { k with counter := k.counter + 1 } else RefKey.wiped n := by
  rw [increment_wipes_exactly_at_capacity, capacity_tall hs hsum]
  by_cases h : k.counter + 1 < 2 ^ 64
  · have h' : k.counter < 2 ^ 64 - 1 := by omega
    simp only [h, h', if_true]
  · have h' : ¬ k.counter < 2 ^ 64 - 1 := by omega
    simp only [h, h', if_false]

/-- tall shapes: the abstract step at the last counter value releases it and wipes the key -/
theorem tall_last_counter_value_is_released (hs : List Nat) (hsum : 64 ≤ hs.sum) :
    step hs (.live (2 ^ 64 - 1)) .signAccept = (.wiped, some (2 ^ 64 - 1)) := by
  rw [Lemmas.step_accept_all, capacity_tall hs hsum]
  rfl

/-! ### T2: histories (C03) -/

/-- (a) all-shape version of `Props.C03.released_counters_are_consecutive`: every history of a fresh key releases
exactly the counters `0, 1, …, k-1`, in this order and each once, where `k` is the number of accepted signing
operations capped at the capacity; the key is then at counter `k`, or wiped once `capacity hs` counters were
released. -/
theorem released_counters_are_consecutive_all (hs : List Nat) (ops : List Op) :
    ∃ k, k = min (accepts ops) (capacity hs) ∧ k ≤ capacity hs ∧
      (run hs (.live 0) ops).2 = List.range k ∧
      (run hs (.live 0) ops).1 = if k < capacity hs then .live k else .wiped := by
  refine ⟨min (accepts ops) (capacity hs), rfl, Nat.min_le_right _ _, ?_, ?_⟩ <;>
    rw [Lemmas.run_fresh_all hs ops]

/-- the same from any live counter below the capacity (a key that was reloaded mid-life) -/
theorem released_counters_from_all (hs : List Nat) (ops : List Op) (c : Nat) (hc : c < capacity hs) :
    ∃ k, k = min (accepts ops) (capacity hs - c) ∧
      (run hs (.live c) ops).2 = List.range' c k ∧
      (run hs (.live c) ops).1 = if c + k < capacity hs then .live (c + k) else .wiped := by
  refine ⟨min (accepts ops) (capacity hs - c), rfl, ?_, ?_⟩ <;>
    rw [Lemmas.run_live_all hs ops c hc]

/-- tall shapes, spelled out: released counters `0 … k-1` with `k = min (accepts ops) 2^64`, wiped iff `k = 2^64` -/
theorem tall_released_counters_are_consecutive (hs : List Nat) (hsum : 64 ≤ hs.sum) (ops : List Op) :
    (run hs (.live 0) ops).2 = List.range (min (accepts ops) (2 ^ 64)) ∧
    (run hs (.live 0) ops).1
      = if min (accepts ops) (2 ^ 64) < 2 ^ 64 then .live (min (accepts ops) (2 ^ 64)) else .wiped := by
  rw [Lemmas.run_fresh_all hs ops, capacity_tall hs hsum]
  exact ⟨rfl, rfl⟩

/-- (b) the `n`-th released signature uses the mixed-radix digits of `n` (every shape) -/
theorem nth_released_uses_mixed_radix_leaves_all (hs : List Nat) (ops : List Op) (n : Nat)
    (hn : n < (run hs (.live 0) ops).2.length) :
    (((run hs (.live 0) ops).2.map (leavesOfCounter hs))[n]?) = some (mixedRadix hs n) := by
  rw [Lemmas.run_fresh_all hs ops] at hn ⊢
  simp only [List.length_range] at hn
  simp [hn, Lemmas.leavesOfCounter_eq]

/-- (b) all-shape version of `Props.C03.no_leaf_vector_released_twice`: the leaf vectors of the released signatures
of any history of a fresh key of ANY shape are pairwise different - no one-time key position is used twice. -/
theorem no_leaf_vector_released_twice_all (hs : List Nat) (ops : List Op) :
    ((run hs (.live 0) ops).2.map (leavesOfCounter hs)).Nodup := by
  rw [Lemmas.run_fresh_all hs ops]
  exact Lemmas.leaves_nodup hs _ (Nat.le_trans (Nat.min_le_right _ _) (Lemmas.capacity_le_leaves hs))

/-- (b) THE statement for tall shapes: with `64 ≤ hs.sum` (more leaves than counter values), over every history of a
fresh key, the leaf vectors (`Impl.leavesOfCounter`, the model's `CompressedUsedLeafsIndexes::to`) of the released
signatures are pairwise different: released counters are distinct values below `2^64 ≤ 2^hs.sum`, and the mixed-radix
digit vector is injective below `2^hs.sum`. -/
theorem tall_no_leaf_vector_released_twice (hs : List Nat) (_hsum : 64 ≤ hs.sum) (ops : List Op) :
    ((run hs (.live 0) ops).2.map (leavesOfCounter hs)).Nodup :=
  no_leaf_vector_released_twice_all hs ops

/-- the same from any live counter below the capacity -/
theorem no_leaf_vector_released_twice_from (hs : List Nat) (ops : List Op) (c : Nat) (hc : c < capacity hs) :
    ((run hs (.live c) ops).2.map (leavesOfCounter hs)).Nodup := by
  rw [Lemmas.run_live_all hs ops c hc]
  simp only
  have hcap := Lemmas.capacity_le_leaves hs
  unfold List.Nodup
  rw [List.pairwise_map]
  refine List.Pairwise.imp_of_mem ?_ (List.pairwise_lt_range' (s := c) (n := min (accepts ops) (capacity hs - c)) 1)
  intro a b ha hb hab heq
  rw [List.mem_range'_1] at ha hb
  rw [Lemmas.leavesOfCounter_eq, Lemmas.leavesOfCounter_eq] at heq
  have := Lemmas.mixedRadix_injective hs a b (by omega) (by omega) heq
  omega

/-- (b) all-shape version of `Props.C03.distinct_releases_use_distinct_leaves` -/
theorem distinct_releases_use_distinct_leaves_all (hs : List Nat) (ops : List Op) (i j : Nat)
    (hij : i < j) (hj : j < (run hs (.live 0) ops).2.length) :
    leavesOfCounter hs ((run hs (.live 0) ops).2.getD i 0) ≠ leavesOfCounter hs ((run hs (.live 0) ops).2.getD j 0) := by
  rw [Lemmas.run_fresh_all hs ops] at hj ⊢
  simp only [List.length_range] at hj
  have hk : min (accepts ops) (capacity hs) ≤ capacity hs := Nat.min_le_right _ _
  have hcap := Lemmas.capacity_le_leaves hs
  have hi : i < min (accepts ops) (capacity hs) := by omega
  simp only [List.getD_eq_getElem?_getD, List.getElem?_range hi, List.getElem?_range hj, Option.getD_some,
    Lemmas.leavesOfCounter_eq]
  intro heq
  have := Lemmas.mixedRadix_injective hs i j (by omega) (by omega) heq
  omega

/-- (c) all-shape version of `Props.C03.outcome_depends_only_on_accepted` -/
theorem outcome_depends_only_on_accepted_all (hs : List Nat) (ops ops' : List Op)
    (h : accepts ops = accepts ops') : run hs (.live 0) ops = run hs (.live 0) ops' := by
  rw [Lemmas.run_fresh_all hs ops, Lemmas.run_fresh_all hs ops', h]

/-- (d) no history releases more signatures than the capacity -/
theorem released_count_le_capacity (hs : List Nat) (ops : List Op) :
    (run hs (.live 0) ops).2.length ≤ capacity hs :=
  (capacity_is_max_released hs).2.1 ops

/-- (d) all-shape version of `Props.C03.released_count_le_leaves` (true as stated, for every shape) -/
theorem released_count_le_leaves_all (hs : List Nat) (ops : List Op) :
    (run hs (.live 0) ops).2.length ≤ leavesTotal hs :=
  Nat.le_trans (released_count_le_capacity hs ops) (capacity_le_leaves hs)

/-- (d) all-shape version of `Props.C03.all_leaves_used_iff_wiped`: the key ended up wiped exactly when `capacity hs`
signatures were released. -/
theorem capacity_used_iff_wiped (hs : List Nat) (ops : List Op) :
    (run hs (.live 0) ops).2.length = capacity hs ↔ (run hs (.live 0) ops).1 = .wiped := by
  rw [Lemmas.run_fresh_all hs ops]
  simp only [List.length_range]
  by_cases h : min (accepts ops) (capacity hs) < capacity hs
  · simp only [h, if_true]
    constructor
    · intro h'; omega
    · intro h'; cases h'
  · simp only [h, if_false]
    have := Nat.min_le_right (accepts ops) (capacity hs)
    constructor
    · intro _; trivial
    · intro _; omega

/-- (d) `Props.C03.all_leaves_used_iff_wiped` as stated holds up to total height 64 -/
theorem all_leaves_used_iff_wiped_le64 (hs : List Nat) (hsum : hs.sum ≤ 64) (ops : List Op) :
    (run hs (.live 0) ops).2.length = leavesTotal hs ↔ (run hs (.live 0) ops).1 = .wiped := by
  rw [← capacity_le64 hs hsum]
  exact capacity_used_iff_wiped hs ops

/-- (d) DIFFERENCE for total height 65 and above: no history ever uses all leaves ... -/
theorem tall_never_uses_all_leaves (hs : List Nat) (hsum : 65 ≤ hs.sum) (ops : List Op) :
    (run hs (.live 0) ops).2.length < leavesTotal hs :=
  Nat.lt_of_le_of_lt (released_count_le_capacity hs ops) (capacity_lt_leaves hs hsum)

/-- ... although the key does get wiped: `all_leaves_used_iff_wiped` is false for these shapes -/
theorem tall_wiped_without_all_leaves_used (hs : List Nat) (hsum : 65 ≤ hs.sum) :
    ∃ ops, (run hs (.live 0) ops).1 = .wiped ∧ (run hs (.live 0) ops).2.length = 2 ^ 64 ∧
      (run hs (.live 0) ops).2.length < leavesTotal hs := by
  obtain ⟨ops, hops⟩ := (capacity_is_max_released hs).2.2
  refine ⟨ops, (capacity_used_iff_wiped hs ops).mp hops, ?_, tall_never_uses_all_leaves hs hsum ops⟩
  rw [hops, capacity_tall hs (by omega)]

/-! ### T2: lifetime (C05) -/

/-- all-shape version of `Props.C05.lifetime_closed_form`: for EVERY shape and every leaf vector with one entry per
level the loop computes the closed form `Lemmas.life` saturated at `u64::MAX`. -/
theorem lifetime_closed_form_all (hs qs : List Nat) (hlen : qs.length = hs.length) :
    lifetimeOf hs qs = min (Lemmas.life hs qs) (2 ^ 64 - 1) :=
  Lemmas.lifetimeOf_eq_sat_life hs qs hlen

/-- all-shape version of `Props.C05.lifetime_eq`: the lifetime reported for the key with counter `c` is
`2^(h_0+…+h_{L-1}) - c`, saturated at `2^64 - 1`. -/
theorem lifetime_eq_all (hs : List Nat) (c : Nat) (hne : hs ≠ []) (hc : c < 2 ^ hs.sum) :
    lifetimeOf hs (mixedRadix hs c) = min (2 ^ hs.sum - c) (2 ^ 64 - 1) :=
  Lemmas.lifetime_all hs c hne hc

/-- all-shape version of `Props.C05.lifetime_of_counter` -/
theorem lifetime_of_counter_all (hs : List Nat) (c : Nat) (hne : hs ≠ []) (hc : c < leavesTotal hs) :
    lifetimeOf hs (leavesOfCounter hs c) = min (leavesTotal hs - c) (2 ^ 64 - 1) := by
  rw [Lemmas.leavesOfCounter_eq]
  exact Lemmas.lifetime_all hs c hne hc

/-- `Props.C05.lifetime_of_counter` as stated extends to total height 64 for every counter but 0 -/
theorem lifetime_of_counter_sum64 (hs : List Nat) (c : Nat) (hne : hs ≠ []) (hsum : hs.sum = 64) (hc : c < 2 ^ 64) :
    lifetimeOf hs (leavesOfCounter hs c) = if c = 0 then 2 ^ 64 - 1 else 2 ^ 64 - c := by
  have hl : leavesTotal hs = 2 ^ 64 := by simp only [leavesTotal, hsum]
  rw [lifetime_of_counter_all hs c hne (by omega), hl]
  by_cases h0 : c = 0
  · subst h0; simp
  · simp only [h0, if_false]; omega

/-- DIFFERENCE for total height 65 and above: the reported lifetime is the constant `u64::MAX` for every counter the
key can hold -/
theorem lifetime_of_counter_ge65 (hs : List Nat) (c : Nat) (hsum : 65 ≤ hs.sum) (hc : c < 2 ^ 64) :
    lifetimeOf hs (leavesOfCounter hs c) = 2 ^ 64 - 1 := by
  have hne : hs ≠ [] := by intro h; subst h; simp at hsum
  have h65 : (2 : Nat) ^ 65 ≤ leavesTotal hs := Nat.pow_le_pow_right (by omega) hsum
  rw [lifetime_of_counter_all hs c hne (by omega)]
  omega

/-- all-shape version of `Props.C05.fresh_key_lifetime`: a fresh key reports the number of leaves, saturated -/
theorem fresh_key_lifetime_all (hs : List Nat) (hne : hs ≠ []) :
    lifetimeOf hs (leavesOfCounter hs 0) = min (leavesTotal hs) (2 ^ 64 - 1) := by
  rw [lifetime_of_counter_all hs 0 hne (Nat.two_pow_pos _)]
  rfl

/-- DIFFERENCE: a fresh tall key reports `2^64 - 1 = capacity hs - 1`, one less than it can release -/
theorem fresh_key_lifetime_tall (hs : List Nat) (hsum : 64 ≤ hs.sum) :
    lifetimeOf hs (leavesOfCounter hs 0) = 2 ^ 64 - 1 ∧
    lifetimeOf hs (leavesOfCounter hs 0) + 1 = capacity hs := by
  have hne : hs ≠ [] := by intro h; subst h; simp at hsum
  have h64 : (2 : Nat) ^ 64 ≤ leavesTotal hs := Nat.pow_le_pow_right (by omega) hsum
  rw [fresh_key_lifetime_all hs hne, capacity_tall hs hsum]
  omega

/-- all-shape version of `Props.C05.lifetime_decreases_by_one`: each advance of the counter lowers the reported
lifetime by exactly one as long as the report for `c` is not saturated (at most `2^64 - 1` counters left). -/
theorem lifetime_decreases_by_one_all (hs : List Nat) (c : Nat) (hne : hs ≠ [])
    (hc : c + 1 < leavesTotal hs) (hunsat : leavesTotal hs - c ≤ 2 ^ 64 - 1) :
    lifetimeOf hs (leavesOfCounter hs (c + 1)) + 1 = lifetimeOf hs (leavesOfCounter hs c) := by
  rw [lifetime_of_counter_all hs (c + 1) hne hc, lifetime_of_counter_all hs c hne (by omega)]
  omega

/-- in general (every shape, every counter) the report never increases and drops by at most one per advance -/
theorem lifetime_monotone_all (hs : List Nat) (c : Nat) (hne : hs ≠ []) (hc : c + 1 < leavesTotal hs) :
    lifetimeOf hs (leavesOfCounter hs (c + 1)) ≤ lifetimeOf hs (leavesOfCounter hs c) ∧
    lifetimeOf hs (leavesOfCounter hs c) ≤ lifetimeOf hs (leavesOfCounter hs (c + 1)) + 1 := by
  rw [lifetime_of_counter_all hs (c + 1) hne hc, lifetime_of_counter_all hs c hne (by omega)]
  omega

/-- total height exactly 64: decreases by one from counter 1 on ... -/
theorem lifetime_decreases_by_one_sum64 (hs : List Nat) (c : Nat) (hne : hs ≠ []) (hsum : hs.sum = 64)
    (hc0 : 1 ≤ c) (hc : c + 1 < 2 ^ 64) :
    lifetimeOf hs (leavesOfCounter hs (c + 1)) + 1 = lifetimeOf hs (leavesOfCounter hs c) := by
  have hl : leavesTotal hs = 2 ^ 64 := by simp only [leavesTotal, hsum]
  exact lifetime_decreases_by_one_all hs c hne (by omega) (by omega)

/-- ... DIFFERENCE: but the first signature does not lower the report -/
theorem lifetime_first_step_stalls_sum64 (hs : List Nat) (hne : hs ≠ []) (hsum : hs.sum = 64) :
    lifetimeOf hs (leavesOfCounter hs 1) = lifetimeOf hs (leavesOfCounter hs 0) := by
  rw [lifetime_of_counter_sum64 hs 1 hne hsum (by omega), lifetime_of_counter_sum64 hs 0 hne hsum (by omega)]
  simp

/-- DIFFERENCE for total height 65 and above: `lifetime_decreases_by_one` fails at EVERY counter - the report never
moves -/
theorem lifetime_never_decreases_ge65 (hs : List Nat) (c : Nat) (hsum : 65 ≤ hs.sum) (hc : c + 1 < 2 ^ 64) :
    lifetimeOf hs (leavesOfCounter hs (c + 1)) = lifetimeOf hs (leavesOfCounter hs c) := by
  rw [lifetime_of_counter_ge65 hs (c + 1) hsum hc, lifetime_of_counter_ge65 hs c hsum (by omega)]

/-- all-shape version of `Props.C05.last_counter_lifetime_one`, true up to total height 64: the key at its last
counter `capacity hs - 1` reports one remaining signature -/
theorem last_counter_lifetime_one_le64 (hs : List Nat) (hne : hs ≠ []) (hsum : hs.sum ≤ 64) :
    lifetimeOf hs (leavesOfCounter hs (capacity hs - 1)) = 1 := by
  have hp : 0 < leavesTotal hs := Nat.two_pow_pos _
  rw [capacity_le64 hs hsum, lifetime_of_counter_all hs _ hne (by omega)]
  omega

/-- DIFFERENCE for total height 65 and above: the key at its last counter `2^64 - 1` (the next signing call wipes it)
still reports `2^64 - 1` remaining signatures -/
theorem last_counter_lifetime_ge65 (hs : List Nat) (hsum : 65 ≤ hs.sum) :
    capacity hs - 1 = 2 ^ 64 - 1 ∧ lifetimeOf hs (leavesOfCounter hs (capacity hs - 1)) = 2 ^ 64 - 1 := by
  rw [capacity_tall hs (by omega)]
  exact ⟨rfl, lifetime_of_counter_ge65 hs _ hsum (by omega)⟩

/-- every shape: the report is never zero while the key can still sign -/
theorem lifetime_pos_while_live (hs : List Nat) (c : Nat) (hne : hs ≠ []) (hc : c < capacity hs) :
    1 ≤ lifetimeOf hs (leavesOfCounter hs c) := by
  have hcap := capacity_le_leaves hs
  rw [lifetime_of_counter_all hs c hne (by omega)]
  omega

/-- every shape: the report under-states the true number of remaining signatures `capacity hs - c` by at most one -/
theorem lifetime_underreports_by_at_most_one (hs : List Nat) (c : Nat) (hne : hs ≠ []) (hc : c < capacity hs) :
    capacity hs - c ≤ lifetimeOf hs (leavesOfCounter hs c) + 1 := by
  have hcap := capacity_le_leaves hs
  have h64 := Lemmas.capacity_le_u64 hs
  rw [lifetime_of_counter_all hs c hne (by omega)]
  omega

/-- up to total height 64 the report IS the true number of remaining signatures, except for the fresh key of total
height exactly 64 -/
theorem lifetime_is_remaining_le64 (hs : List Nat) (c : Nat) (hne : hs ≠ []) (hsum : hs.sum ≤ 64)
    (hc : c < capacity hs) (hex : hs.sum ≤ 63 ∨ 1 ≤ c) :
    lifetimeOf hs (leavesOfCounter hs c) = capacity hs - c := by
  have hcap := capacity_le64 hs hsum
  have h64 := Lemmas.capacity_le_u64 hs
  rw [lifetime_of_counter_all hs c hne (by omega), ← hcap]
  rcases hex with h | h
  · have : capacity hs ≤ 2 ^ 63 := by
      rw [Lemmas.capacity_le63 hs h]; exact Nat.pow_le_pow_right (by omega) h
    omega
  · omega

/-- all-shape version of `Props.C05.lifetime_plus_released_is_total`: after ANY history of a fresh key that leaves it
live, reported lifetime plus number of released signatures is `min (leaves) (2^64 - 1 + released)`. -/
theorem lifetime_plus_released_all (hs : List Nat) (hne : hs ≠ []) (ops : List Op)
    (c : Nat) (hlive : (run hs (.live 0) ops).1 = .live c) :
    lifetimeOf hs (leavesOfCounter hs c) + (run hs (.live 0) ops).2.length
      = min (leavesTotal hs) (2 ^ 64 - 1 + (run hs (.live 0) ops).2.length) := by
  rw [Lemmas.run_fresh_all hs ops] at hlive ⊢
  simp only [List.length_range]
  have hcap := capacity_le_leaves hs
  by_cases h : min (accepts ops) (capacity hs) < capacity hs
  · simp only [h, if_true, KeyState.live.injEq] at hlive
    subst hlive
    rw [lifetime_of_counter_all hs _ hne (by omega)]
    omega
  · simp [h] at hlive

/-- `Props.C05.lifetime_plus_released_is_total` with the capacity as the total holds up to total height 64 (for total
height exactly 64: once at least one signature was released) -/
theorem lifetime_plus_released_is_capacity_le64 (hs : List Nat) (hne : hs ≠ []) (hsum : hs.sum ≤ 64) (ops : List Op)
    (c : Nat) (hlive : (run hs (.live 0) ops).1 = .live c)
    (hex : hs.sum ≤ 63 ∨ 1 ≤ (run hs (.live 0) ops).2.length) :
    lifetimeOf hs (leavesOfCounter hs c) + (run hs (.live 0) ops).2.length = capacity hs := by
  have hrel : (run hs (.live 0) ops).2.length = c ∧ c < capacity hs := by
    rw [Lemmas.run_fresh_all hs ops] at hlive ⊢
    simp only [List.length_range]
    by_cases h : min (accepts ops) (capacity hs) < capacity hs
    · simp only [h, if_true, KeyState.live.injEq] at hlive
      subst hlive
      exact ⟨rfl, h⟩
    · simp [h] at hlive
  rw [hrel.1] at hex ⊢
  rw [lifetime_is_remaining_le64 hs c hne hsum hrel.2 hex]
  omega

/-- DIFFERENCE for total height 65 and above: lifetime plus released is `2^64 - 1 + released` - not a constant, and
above the capacity as soon as two signatures were released -/
theorem lifetime_plus_released_ge65 (hs : List Nat) (hsum : 65 ≤ hs.sum) (ops : List Op)
    (c : Nat) (hlive : (run hs (.live 0) ops).1 = .live c) :
    lifetimeOf hs (leavesOfCounter hs c) + (run hs (.live 0) ops).2.length
      = 2 ^ 64 - 1 + (run hs (.live 0) ops).2.length := by
  have hne : hs ≠ [] := by intro h; subst h; simp at hsum
  have h65 : (2 : Nat) ^ 65 ≤ leavesTotal hs := Nat.pow_le_pow_right (by omega) hsum
  have hle := released_count_le_capacity hs ops
  rw [capacity_tall hs (by omega)] at hle
  rw [lifetime_plus_released_all hs hne ops c hlive]
  omega

/-- all-shape version of `Props.C05.getLifetime_reports_remaining`: whenever `SigningKey::get_lifetime` answers, the
answer is `min (leaves - counter) (2^64 - 1)` with the heights of the key's own parameter bytes. -/
theorem getLifetime_reports_saturated_remaining {H : HashFn} {cfg : Config} {sk : Bytes} {L : Nat}
    (h : getLifetime H cfg sk = .ok (some L)) :
    ∃ k ps, RefKey.parse H.n sk = some k ∧ paramsOfBytes cfg H.n k.params = some ps ∧
      (k.counter < leavesTotal (ps.map (·.lms.h)) →
        L = min (leavesTotal (ps.map (·.lms.h)) - k.counter) (2 ^ 64 - 1)) := by
  obtain ⟨k, ps, hk, hps, hne, hL⟩ := Lemmas.getLifetime_value h
  refine ⟨k, ps, hk, hps, fun hc => ?_⟩
  rw [hL]
  exact lifetime_of_counter_all _ _ (by simpa using hne) hc

/-! ### T3: sessions of `Impl.hssSign` calls, every shape -/

/-- `Props.C03.session_never_reuses_a_leaf` without the bound on the total height: every session on a key whose
parameter bytes describe heights `hs` (ANY total height) and whose counter is below the capacity (for tall shapes:
below `2^64`, which every parsed key satisfies): the released signatures were produced from keys with strictly
increasing counters below the capacity, their leaf vectors are pairwise different, there are at most as many as
counters were left, and the finally persisted key is the encoding of a valid abstract state. -/
theorem session_never_reuses_a_leaf_all {H : HashFn} {cfg : Config} {k0 : RefKey} {ps : List HssParam}
    (hp8 : k0.params.length = 8) (hseed : k0.seed.length = H.n)
    (hps : paramsOfBytes cfg H.n k0.params = some ps)
    (hc0 : k0.counter < capacity (ps.map (·.lms.h)))
    (calls : List Call) (skN : Bytes) (log : List (Bytes × Bytes))
    (h : session H cfg k0.bytes calls = .ok (skN, log)) :
    ∃ (cs : List Nat) (final : KeyState),
      log.map (·.1) = cs.map (fun c => ({ k0 with counter := c } : RefKey).bytes) ∧
      cs.Pairwise (· < ·) ∧
      (∀ c, c ∈ cs → k0.counter ≤ c ∧ c < capacity (ps.map (·.lms.h))) ∧
      (cs.map (leavesOfCounter (ps.map (·.lms.h)))).Nodup ∧
      log.length ≤ capacity (ps.map (·.lms.h)) - k0.counter ∧
      skN = (Lemmas.keyOfState k0 H.n final).bytes ∧ Lemmas.validStateCap (ps.map (·.lms.h)) final := by
  obtain ⟨ops, cs, _, hsk, hsub, hmap⟩ :=
    Lemmas.session_sim_all hp8 hseed hps calls (.live k0.counter) hc0 skN log h
  have hrun := Lemmas.run_live_all (ps.map (·.lms.h)) ops k0.counter hc0
  have hvalid : Lemmas.validStateCap (ps.map (·.lms.h)) (run (ps.map (·.lms.h)) (.live k0.counter) ops).1 :=
    Lemmas.validStateCap_run _ ops (.live k0.counter) hc0
  rw [hrun] at hsub
  simp only at hsub
  have hcap := Lemmas.capacity_le_leaves (ps.map (·.lms.h))
  have hmem : ∀ c, c ∈ cs → k0.counter ≤ c ∧ c < capacity (ps.map (·.lms.h)) := by
    intro c hc
    have := hsub.subset hc
    rw [List.mem_range'_1] at this
    omega
  have hpw : cs.Pairwise (· < ·) := List.Pairwise.sublist hsub (List.pairwise_lt_range' 1)
  refine ⟨cs, (run (ps.map (·.lms.h)) (.live k0.counter) ops).1, hmap, hpw, hmem, ?_, ?_, hsk, hvalid⟩
  · unfold List.Nodup
    rw [List.pairwise_map]
    refine List.Pairwise.imp_of_mem ?_ hpw
    intro a b ha hb hab heq
    rw [Lemmas.leavesOfCounter_eq, Lemmas.leavesOfCounter_eq] at heq
    have := Lemmas.mixedRadix_injective _ a b (by have := (hmem a ha).2; omega) (by have := (hmem b hb).2; omega) heq
    omega
  · have h1 : log.length = cs.length := by
      have := congrArg List.length hmap
      simpa using this
    have h2 := hsub.length_le
    rw [List.length_range'] at h2
    omega

/-- tall shapes, from key BYTES: any blob that parses (its counter is then below `2^64` automatically) with parameter
bytes of total height 64 or more - sessions never reuse a leaf vector. No hypothesis on the counter is needed. -/
theorem tall_session_never_reuses_a_leaf {H : HashFn} {cfg : Config} {sk : Bytes} {k0 : RefKey} {ps : List HssParam}
    (hparse : RefKey.parse H.n sk = some k0)
    (hps : paramsOfBytes cfg H.n k0.params = some ps) (hsum : 64 ≤ (ps.map (·.lms.h)).sum)
    (calls : List Call) (skN : Bytes) (log : List (Bytes × Bytes))
    (h : session H cfg k0.bytes calls = .ok (skN, log)) :
    ∃ (cs : List Nat),
      log.map (·.1) = cs.map (fun c => ({ k0 with counter := c } : RefKey).bytes) ∧
      cs.Pairwise (· < ·) ∧ (∀ c, c ∈ cs → k0.counter ≤ c ∧ c < 2 ^ 64) ∧
      (cs.map (leavesOfCounter (ps.map (·.lms.h)))).Nodup ∧
      log.length ≤ 2 ^ 64 - k0.counter := by
  obtain ⟨_, hp8, hseed, _⟩ := Lemmas.parse_some hparse
  have hcap := capacity_tall (ps.map (·.lms.h)) hsum
  obtain ⟨cs, _, h1, h2, h3, h4, h5, _, _⟩ :=
    session_never_reuses_a_leaf_all hp8 hseed hps (by rw [hcap]; exact Lemmas.parse_counter_lt hparse) calls skN log h
  rw [hcap] at h3 h5
  exact ⟨cs, h1, h2, h3, h4, h5⟩

-- non-vacuity: three H25 trees (total height 75), and 13 H5 trees for the boundary 65; total height 64 is not
-- reachable with the library's heights {5,10,15,20,25} but is covered by the theorems
example : capacity [25, 25, 25] = 2 ^ 64 ∧ leavesTotal [25, 25, 25] = 2 ^ 75 := by decide +kernel
example : capacity [20, 20, 20] = 2 ^ 60 := by decide +kernel
example : incrementCounter [25, 25, 25] (2 ^ 64 - 2) = some (2 ^ 64 - 1) := by decide +kernel
example : incrementCounter [25, 25, 25] (2 ^ 64 - 1) = none := by decide +kernel
example : lifetimeOf [25, 25, 25] (leavesOfCounter [25, 25, 25] 0) = 2 ^ 64 - 1 := by decide +kernel
example : lifetimeOf [25, 25, 25] (leavesOfCounter [25, 25, 25] (2 ^ 64 - 1)) = 2 ^ 64 - 1 := by decide +kernel
example : lifetimeOf [32, 32] (leavesOfCounter [32, 32] 0) = 2 ^ 64 - 1 := by decide +kernel
example : lifetimeOf [32, 32] (leavesOfCounter [32, 32] 1) = 2 ^ 64 - 1 := by decide +kernel
example : lifetimeOf [32, 32] (leavesOfCounter [32, 32] 2) = 2 ^ 64 - 2 := by decide +kernel
example : lifetimeOf [32, 32] (leavesOfCounter [32, 32] (2 ^ 64 - 1)) = 1 := by decide +kernel
example : leavesOfCounter [25, 25, 25] (2 ^ 64 - 1) = [2 ^ 14 - 1, 2 ^ 25 - 1, 2 ^ 25 - 1] := by decide +kernel
example : run [25, 25, 25] (.live (2 ^ 64 - 2)) [.signAccept, .signReject, .signAccept, .signAccept]
    = (.wiped, [2 ^ 64 - 2, 2 ^ 64 - 1]) := by decide +kernel
-- a three-level H25/W8 key blob under the default configuration is accepted by the model's parameter parser
example : (paramsOfBytes Config.default 32 [0x94, 0x94, 0x94, 255, 255, 255, 255, 255]).map
    (fun ps => ps.map (·.lms.h)) = some [25, 25, 25] := by decide +kernel

end Props.C05Tall

#print axioms Props.C05Tall.capacity_eq_min_leaves_u64
#print axioms Props.C05Tall.capacity_le63
#print axioms Props.C05Tall.capacity_le64
#print axioms Props.C05Tall.capacity_tall
#print axioms Props.C05Tall.capacity_le_leaves
#print axioms Props.C05Tall.capacity_lt_leaves
#print axioms Props.C05Tall.capacity_is_max_released
#print axioms Props.C05Tall.successor_all
#print axioms Props.C05Tall.increment_wipes_exactly_at_capacity
#print axioms Props.C05Tall.tall_increment_wipes_exactly_at_u64_max
#print axioms Props.C05Tall.tall_last_counter_value_is_released
#print axioms Props.C05Tall.released_counters_are_consecutive_all
#print axioms Props.C05Tall.released_counters_from_all
#print axioms Props.C05Tall.tall_released_counters_are_consecutive
#print axioms Props.C05Tall.nth_released_uses_mixed_radix_leaves_all
#print axioms Props.C05Tall.no_leaf_vector_released_twice_all
#print axioms Props.C05Tall.tall_no_leaf_vector_released_twice
#print axioms Props.C05Tall.no_leaf_vector_released_twice_from
#print axioms Props.C05Tall.distinct_releases_use_distinct_leaves_all
#print axioms Props.C05Tall.outcome_depends_only_on_accepted_all
#print axioms Props.C05Tall.released_count_le_capacity
#print axioms Props.C05Tall.released_count_le_leaves_all
#print axioms Props.C05Tall.capacity_used_iff_wiped
#print axioms Props.C05Tall.all_leaves_used_iff_wiped_le64
#print axioms Props.C05Tall.tall_never_uses_all_leaves
#print axioms Props.C05Tall.tall_wiped_without_all_leaves_used
#print axioms Props.C05Tall.lifetime_closed_form_all
#print axioms Props.C05Tall.lifetime_eq_all
#print axioms Props.C05Tall.lifetime_of_counter_all
#print axioms Props.C05Tall.lifetime_of_counter_sum64
#print axioms Props.C05Tall.lifetime_of_counter_ge65
#print axioms Props.C05Tall.fresh_key_lifetime_all
#print axioms Props.C05Tall.fresh_key_lifetime_tall
#print axioms Props.C05Tall.lifetime_decreases_by_one_all
#print axioms Props.C05Tall.lifetime_monotone_all
#print axioms Props.C05Tall.lifetime_decreases_by_one_sum64
#print axioms Props.C05Tall.lifetime_first_step_stalls_sum64
#print axioms Props.C05Tall.lifetime_never_decreases_ge65
#print axioms Props.C05Tall.last_counter_lifetime_one_le64
#print axioms Props.C05Tall.last_counter_lifetime_ge65
#print axioms Props.C05Tall.lifetime_pos_while_live
#print axioms Props.C05Tall.lifetime_underreports_by_at_most_one
#print axioms Props.C05Tall.lifetime_is_remaining_le64
#print axioms Props.C05Tall.lifetime_plus_released_all
#print axioms Props.C05Tall.lifetime_plus_released_is_capacity_le64
#print axioms Props.C05Tall.lifetime_plus_released_ge65
#print axioms Props.C05Tall.getLifetime_reports_saturated_remaining
#print axioms Props.C05Tall.session_never_reuses_a_leaf_all
#print axioms Props.C05Tall.tall_session_never_reuses_a_leaf

/-
C03 - no one-time key position is ever used twice, over every history of one private key.
The abstract key state machine is `Spec.step` / `Spec.run` (Spec/History.lean); its successor function is the
implementation model's `Impl.incrementCounter`, its leaf selection the model's `Impl.leavesOfCounter`.
All statements are for every list of tree heights with total height at most 63 (so that the number of leaves
fits the 8-byte counter) and EVERY finite list of operations, of any length: accepted signatures, rejected
callbacks, failed attempts and queries in any order.  Property theorems only; proofs in Lemmas/History.lean.
The link between one `Impl.hssSign` call and one `Spec.step` is in Props/C05.lean; the last theorem here lifts the
result to whole sessions of `Impl.hssSign` calls (`Spec.session`).
-/
import HbsLms.Lemmas.History

namespace Props.C03

open Impl Spec

/-- (a) Every history of a fresh key releases exactly the counters `0, 1, …, k-1`, in this order and each once,
where `k` is the number of accepted signing operations capped at the number of leaves; the key is then at
counter `k`, or wiped once all `2^(h_0+…+h_{L-1})` counters were released. -/
theorem released_counters_are_consecutive (hs : List Nat) (hsum : hs.sum ≤ 63) (ops : List Op) :
    ∃ k, k = min (accepts ops) (leavesTotal hs) ∧ k ≤ leavesTotal hs ∧
      (run hs (.live 0) ops).2 = List.range k ∧
      (run hs (.live 0) ops).1 = if k < leavesTotal hs then .live k else .wiped := by
  refine ⟨min (accepts ops) (2 ^ hs.sum), rfl, Nat.min_le_right _ _, ?_, ?_⟩ <;>
    rw [Lemmas.run_fresh hs hsum ops] <;> rfl

/-- the same from any live counter below the number of leaves (a key that was reloaded mid-life) -/
theorem released_counters_from (hs : List Nat) (hsum : hs.sum ≤ 63) (ops : List Op) (c : Nat)
    (hc : c < leavesTotal hs) :
    ∃ k, k = min (accepts ops) (leavesTotal hs - c) ∧
      (run hs (.live c) ops).2 = List.range' c k ∧
      (run hs (.live c) ops).1 = if c + k < leavesTotal hs then .live (c + k) else .wiped := by
  refine ⟨min (accepts ops) (2 ^ hs.sum - c), rfl, ?_, ?_⟩ <;>
    rw [Lemmas.run_live hs hsum ops c hc] <;> rfl

/-- (b) The `n`-th released signature (counting from 1) uses the leaf vector of counter `n-1`: the mixed-radix
digits of `n-1` (here with `n` counted from 0). -/
theorem nth_released_uses_mixed_radix_leaves (hs : List Nat) (hsum : hs.sum ≤ 63) (ops : List Op) (n : Nat)
    (hn : n < (run hs (.live 0) ops).2.length) :
    (((run hs (.live 0) ops).2.map (leavesOfCounter hs))[n]?) = some (mixedRadix hs n) := by
  rw [Lemmas.run_fresh hs hsum ops] at hn ⊢
  simp only [List.length_range] at hn
  simp [hn, Lemmas.leavesOfCounter_eq]

/-- (b) No one-time key position is used twice: the leaf vectors of the released signatures of any history are
pairwise different. -/
theorem no_leaf_vector_released_twice (hs : List Nat) (hsum : hs.sum ≤ 63) (ops : List Op) :
    ((run hs (.live 0) ops).2.map (leavesOfCounter hs)).Nodup := by
  rw [Lemmas.run_fresh hs hsum ops]
  exact Lemmas.leaves_nodup hs _ (Nat.min_le_right _ _)

/-- (b) the same, by position: two different released signatures never use the same leaf vector -/
theorem distinct_releases_use_distinct_leaves (hs : List Nat) (hsum : hs.sum ≤ 63) (ops : List Op) (i j : Nat)
    (hij : i < j) (hj : j < (run hs (.live 0) ops).2.length) :
    leavesOfCounter hs ((run hs (.live 0) ops).2.getD i 0) ≠ leavesOfCounter hs ((run hs (.live 0) ops).2.getD j 0) := by
  rw [Lemmas.run_fresh hs hsum ops] at hj ⊢
  simp only [List.length_range] at hj
  have hk : min (accepts ops) (2 ^ hs.sum) ≤ 2 ^ hs.sum := Nat.min_le_right _ _
  have hi : i < min (accepts ops) (2 ^ hs.sum) := by omega
  simp only [List.getD_eq_getElem?_getD, List.getElem?_range hi, List.getElem?_range hj, Option.getD_some,
    Lemmas.leavesOfCounter_eq]
  intro heq
  have := Lemmas.mixedRadix_injective hs i j (by omega) (by omega) heq
  omega

/-- (c) A rejected callback, a failed attempt or a query never changes the persisted state and releases nothing. -/
theorem non_accepting_step_changes_nothing (hs : List Nat) (s : KeyState) (op : Op) (hop : op ≠ .signAccept) :
    step hs s op = (s, none) :=
  Lemmas.step_other hs s op hop

/-- (c) Once wiped, nothing is ever released and the key stays wiped, whatever is attempted. -/
theorem wiped_key_releases_nothing (hs : List Nat) (ops : List Op) : run hs .wiped ops = (.wiped, []) :=
  Lemmas.run_wiped hs ops

/-- (c) after a history that ended in the wiped state, any continuation releases nothing more -/
theorem nothing_released_after_wipe (hs : List Nat) (s : KeyState) (before after : List Op)
    (hw : (run hs s before).1 = .wiped) :
    run hs s (before ++ after) = (.wiped, (run hs s before).2) := by
  rw [Lemmas.run_append, hw, Lemmas.run_wiped]
  simp

/-- (c) Rejections, failures and queries are invisible: the outcome of a history depends only on how many
signing operations were accepted. -/
theorem outcome_depends_only_on_accepted (hs : List Nat) (hsum : hs.sum ≤ 63) (ops ops' : List Op)
    (h : accepts ops = accepts ops') : run hs (.live 0) ops = run hs (.live 0) ops' := by
  rw [Lemmas.run_fresh hs hsum ops, Lemmas.run_fresh hs hsum ops', h]

/-- (d) No history releases more signatures than the key has leaves. -/
theorem released_count_le_leaves (hs : List Nat) (hsum : hs.sum ≤ 63) (ops : List Op) :
    (run hs (.live 0) ops).2.length ≤ leavesTotal hs := by
  rw [Lemmas.run_fresh hs hsum ops]
  simp only [List.length_range]
  exact Nat.min_le_right _ _

/-- (d) All leaves were used exactly when the key ended up wiped. -/
theorem all_leaves_used_iff_wiped (hs : List Nat) (hsum : hs.sum ≤ 63) (ops : List Op) :
    (run hs (.live 0) ops).2.length = leavesTotal hs ↔ (run hs (.live 0) ops).1 = .wiped := by
  rw [Lemmas.run_fresh hs hsum ops]
  simp only [List.length_range, leavesTotal]
  by_cases h : min (accepts ops) (2 ^ hs.sum) < 2 ^ hs.sum
  · simp only [h, if_true]
    constructor
    · intro h'; omega
    · intro h'; cases h'
  · simp only [h, if_false]
    have := Nat.min_le_right (accepts ops) (2 ^ hs.sum)
    constructor
    · intro _; trivial
    · intro _; omega

/-! ### the same on the implementation model: sessions of `Impl.hssSign` calls

`Spec.session` runs any list of signing calls (arbitrary messages, callbacks and aux buffers) on the implementation
model, the caller persisting exactly the keys its callback accepted. -/

/-- Every session on a key whose parameter bytes describe heights `hs` (total at most 63) and whose counter is below
the number of leaves: the released signatures were produced from keys with strictly increasing counters (so no
counter, and no leaf vector, is ever used for two released signatures), there are at most as many as counters were
left, and the finally persisted key is the encoding of a valid abstract state (a counter below the number of leaves,
or the wiped key). -/
theorem session_never_reuses_a_leaf {H : HashFn} {cfg : Config} {k0 : RefKey} {ps : List HssParam}
    (hp8 : k0.params.length = 8) (hseed : k0.seed.length = H.n)
    (hps : paramsOfBytes cfg H.n k0.params = some ps) (hsum : (ps.map (·.lms.h)).sum ≤ 63)
    (hc0 : k0.counter < leavesTotal (ps.map (·.lms.h)))
    (calls : List Call) (skN : Bytes) (log : List (Bytes × Bytes))
    (h : session H cfg k0.bytes calls = .ok (skN, log)) :
    ∃ (cs : List Nat) (final : KeyState),
      log.map (·.1) = cs.map (fun c => ({ k0 with counter := c } : RefKey).bytes) ∧
      cs.Pairwise (· < ·) ∧
      (∀ c, c ∈ cs → k0.counter ≤ c ∧ c < leavesTotal (ps.map (·.lms.h))) ∧
      (cs.map (leavesOfCounter (ps.map (·.lms.h)))).Nodup ∧
      log.length ≤ leavesTotal (ps.map (·.lms.h)) - k0.counter ∧
      skN = (Lemmas.keyOfState k0 H.n final).bytes ∧ Lemmas.validState (ps.map (·.lms.h)) final := by
  obtain ⟨ops, cs, _, hsk, hsub, hmap⟩ :=
    Lemmas.session_sim hp8 hseed hps hsum calls (.live k0.counter) hc0 skN log h
  have hrun := Lemmas.run_live _ hsum ops k0.counter hc0
  rw [hrun] at hsub
  simp only at hsub
  have hmem : ∀ c, c ∈ cs → k0.counter ≤ c ∧ c < leavesTotal (ps.map (·.lms.h)) := by
    intro c hc
    have := hsub.subset hc
    rw [List.mem_range'_1] at this
    simp only [leavesTotal]
    omega
  have hpw : cs.Pairwise (· < ·) := List.Pairwise.sublist hsub (List.pairwise_lt_range' 1)
  refine ⟨cs, (run (ps.map (·.lms.h)) (.live k0.counter) ops).1, hmap, hpw, hmem, ?_, ?_, hsk, ?_⟩
  · unfold List.Nodup
    rw [List.pairwise_map]
    refine List.Pairwise.imp_of_mem ?_ hpw
    intro a b ha hb hab heq
    rw [Lemmas.leavesOfCounter_eq, Lemmas.leavesOfCounter_eq] at heq
    have := Lemmas.mixedRadix_injective _ a b (hmem a ha).2 (hmem b hb).2 heq
    omega
  · have h1 : log.length = cs.length := by
      have := congrArg List.length hmap
      simpa using this
    have h2 := hsub.length_le
    rw [List.length_range'] at h2
    simp only [leavesTotal]
    omega
  · rw [hrun]
    simp only
    split
    · assumption
    · trivial

-- non-vacuity: a two-level key with 2+2 = 4 leaves, signing through rejections, failures and queries until it is
-- wiped; further attempts release nothing
example : ([1, 1] : List Nat).sum ≤ 63 := by decide
example : run [1, 1] (.live 0)
    [.signAccept, .signReject, .signAccept, .query, .signFail, .signAccept, .signAccept, .signAccept, .query]
      = (.wiped, [0, 1, 2, 3]) := by decide
example : run [5, 10, 2] (.live 0) [.signReject, .signAccept, .signFail, .signAccept] = (.live 2, [0, 1]) := by decide
example : ([0, 1, 2, 3] : List Nat).map (leavesOfCounter [1, 1]) = [[0, 0], [0, 1], [1, 0], [1, 1]] := by decide

-- non-vacuity of the session hypotheses: a fresh two-level H5/W8 - H5/W8 key blob under the default configuration
example : (paramsOfBytes Config.default 32 [0x54, 0x54, 255, 255, 255, 255, 255, 255]).map (fun ps => ps.map (·.lms.h))
    = some [5, 5] := by decide +kernel
example : let k0 : RefKey := ⟨0, [0x54, 0x54, 255, 255, 255, 255, 255, 255], Bytes.zeros 32⟩
    k0.params.length = 8 ∧ k0.seed.length = 32 ∧ k0.counter < leavesTotal [5, 5] ∧ ([5, 5] : List Nat).sum ≤ 63 := by
  decide

end Props.C03

#print axioms Props.C03.released_counters_are_consecutive
#print axioms Props.C03.released_counters_from
#print axioms Props.C03.nth_released_uses_mixed_radix_leaves
#print axioms Props.C03.no_leaf_vector_released_twice
#print axioms Props.C03.distinct_releases_use_distinct_leaves
#print axioms Props.C03.non_accepting_step_changes_nothing
#print axioms Props.C03.wiped_key_releases_nothing
#print axioms Props.C03.nothing_released_after_wipe
#print axioms Props.C03.outcome_depends_only_on_accepted
#print axioms Props.C03.released_count_le_leaves
#print axioms Props.C03.all_leaves_used_iff_wiped
#print axioms Props.C03.session_never_reuses_a_leaf

/-
C15 - fast-verify signing yields ordinary valid signatures, touching only the trailer.
-/
import HbsLms.Impl.FastVerify

namespace Props.C15

open Impl

/-- generalised fold invariant of the receiving loop -/
private theorem fold_mem (results : List (Nat × Bytes)) (acc : Nat × Bytes) :
    let r := results.foldl (fun (acc : Nat × Bytes) r => if r.1 > acc.1 then (r.1, r.2) else acc) acc
    r.2 = acc.2 ∨ r.2 ∈ results.map (·.2) := by
  induction results generalizing acc with
  | nil => simp
  | cons x xs ih =>
    simp only [List.foldl_cons, List.map_cons, List.mem_cons]
    by_cases h : x.1 > acc.1
    · simp only [h, if_true]
      rcases ih (x.1, x.2) with h1 | h1
      · right; left; exact h1
      · right; right; exact h1
    · simp only [h, if_false]
      rcases ih acc with h1 | h1
      · left; exact h1
      · right; right; exact h1

/-- For EVERY list of worker results, in EVERY arrival order (every schedule of the worker threads, every outcome
of their random number generators): the trailer the selection loop ends with is the initial (zero) trailer or
the randomizer reported by one of the workers. -/
theorem selected_trailer_is_initial_or_a_worker_result (results : List (Nat × Bytes)) (init : Bytes) :
    selectTrailer results init = init ∨ selectTrailer results init ∈ results.map (·.2) := by
  unfold selectTrailer
  exact fold_mem results (0, init)

/-- the same for any permutation of the arrivals: membership is in the *set* of worker results -/
theorem selected_trailer_any_schedule (results results' : List (Nat × Bytes)) (init : Bytes)
    (hp : results'.Perm results) :
    selectTrailer results' init = init ∨ selectTrailer results' init ∈ results.map (·.2) := by
  rcases selected_trailer_is_initial_or_a_worker_result results' init with h | h
  · left; exact h
  · right
    exact (List.Perm.mem_iff (List.Perm.map _ hp)).mp h

/-- the selected trailer has the hash output length whenever the initial trailer and all worker results do -/
theorem selected_trailer_length (results : List (Nat × Bytes)) (init : Bytes) (n : Nat)
    (hinit : init.length = n) (hall : ∀ r ∈ results, r.2.length = n) :
    (selectTrailer results init).length = n := by
  rcases selected_trailer_is_initial_or_a_worker_result results init with h | h
  · rw [h]; exact hinit
  · obtain ⟨r, hr, heq⟩ := List.mem_map.mp h
    rw [← heq]; exact hall r hr

/-- A message that is too short is refused: no callback, nothing released, message untouched. -/
theorem too_short_is_refused (H : HashFn) (cfg : Config) (msg trailer sk : Bytes) (cb : Bytes → Bool)
    (h : msg.length ≤ H.n) :
    hssSignMut H cfg msg trailer sk cb = .ok (⟨none, [], none, []⟩, msg) := by
  unfold hssSignMut
  simp [h]
  rfl

/-- A message whose trailer is not all zero is refused: no callback, nothing released, message untouched. -/
theorem nonzero_trailer_is_refused (H : HashFn) (cfg : Config) (msg trailer sk : Bytes) (cb : Bytes → Bool)
    (hl : ¬ msg.length ≤ H.n) (hz : Bytes.allZero (msg.drop (msg.length - H.n)) = false) :
    hssSignMut H cfg msg trailer sk cb = .ok (⟨none, [], none, []⟩, msg) := by
  unfold hssSignMut
  simp [hl, hz]
  rfl

/-- On every input that passes the preconditions, `sign_mut` is exactly ordinary signing of the returned message
`prefix ‖ trailer`: same signature bytes, same callback trace (so exactly one leaf is consumed through the usual
protocol, C04), and the returned message differs from the input at most in its last `n` bytes. -/
theorem accepted_is_ordinary_signing_of_returned_message (H : HashFn) (cfg : Config) (msg trailer sk : Bytes)
    (cb : Bytes → Bool) (k : RefKey) (ps : List HssParam)
    (hl : ¬ msg.length ≤ H.n) (hz : Bytes.allZero (msg.drop (msg.length - H.n)) = true)
    (hk : RefKey.parse H.n sk = some k) (hp : paramsOfBytes cfg H.n k.params = some ps)
    (ht : trailer.length = H.n) :
    hssSignMut H cfg msg trailer sk cb =
      (hssSign H cfg (msg.take (msg.length - H.n) ++ trailer) sk cb none).map
        (fun o => (o, msg.take (msg.length - H.n) ++ trailer)) := by
  unfold hssSignMut
  simp only [hl, hz, hk, hp, ht]
  simp [P.require, bind, Except.bind, Except.map, pure, Except.pure]

/-- the returned message keeps the input's length and everything before the last `n` bytes -/
theorem returned_message_shape (msg trailer : Bytes) (n : Nat) (hl : ¬ msg.length ≤ n) (ht : trailer.length = n) :
    (msg.take (msg.length - n) ++ trailer).length = msg.length ∧
    (msg.take (msg.length - n) ++ trailer).take (msg.length - n) = msg.take (msg.length - n) := by
  constructor
  · simp [List.length_take, ht]; omega
  · rw [List.take_append_of_le_length (by simp [List.length_take])]
    simp [List.take_take]

-- non-vacuity
example : selectTrailer [(3, [1]), (7, [2]), (7, [3]), (5, [4])] [0] = [2] := by decide
example : selectTrailer [] [0, 0] = [0, 0] := by decide

end Props.C15

#print axioms Props.C15.selected_trailer_is_initial_or_a_worker_result
#print axioms Props.C15.selected_trailer_any_schedule
#print axioms Props.C15.selected_trailer_length
#print axioms Props.C15.too_short_is_refused
#print axioms Props.C15.nonzero_trailer_is_refused
#print axioms Props.C15.accepted_is_ordinary_signing_of_returned_message
#print axioms Props.C15.returned_message_shape

/-
C08 (derivation part) - for every parameter list and seed, the private key blob and the public key that
`hss_keygen` returns are those of the hash-sigs reference: `Spec.HashSigs.blob` / `Spec.HashSigs.publicKey`
(`HbsLms/Spec/HashSigs.lean`: top-seed hashing, child seed / identifier derivation, chain-start derivation,
RFC 8554 sections 4.3, 5.3 and 6.1, all written as plain formulas).

Every theorem is for an arbitrary hash function `H`, an arbitrary build configuration `cfg` that `build.rs`
accepts, every list `ps` of table rows within the limits and every seed of `H.n` bytes.
-/
import HbsLms.Lemmas.KeygenRefine
import HbsLms.Props.C14

namespace Props.C08Derive

open Impl Generated Lemmas Lemmas.Complete Lemmas.Layout Lemmas.KeygenRefine

/-! ### T1: `hss_keygen` returns the hash-sigs key pair -/

/-- T1. For every accepted build configuration, every non-empty list of table rows within the build limits whose
signature length fits a `u16`, and every seed of `H.n` bytes, `hss_keygen` (without aux data) returns

* the private key `u64str(0) ‖ (lms type * 16 + ots type)* ‖ 0xff padding to 8 bytes ‖ seed`, and
* the public key `u32str(L) ‖ u32str(lms type₀) ‖ u32str(ots type₀) ‖ I ‖ T[1]`, where `(SEED, I)` is the hash-sigs
  top seed of `seed`, the per-leaf one-time keys are derived from `SEED` (Appendix A) and `T[1]` is the root of
  RFC 8554 section 5.3,

and leaves no aux data behind. -/
theorem keygen_is_hashsigs (H : HashFn) (cfg : Config) (hv : cfg.valid = true) (ps : List HssParam) (seed : Bytes)
    (hrows : ∀ p ∈ ps, IsOtsRow H.n p.ots ∧ IsLmsRow p.lms) (hne : ps ≠ [])
    (hlen : ps.length ≤ cfg.maxLevels) (hlim : ∀ i (h : i < ps.length), cfg.withinLimits i ps[i] = true)
    (hsl : hssSigLen H.n ps ≤ 65535) (hseed : seed.length = H.n) :
    hssKeygen H cfg ps seed none =
      .ok ⟨some (Spec.HashSigs.blob ps seed, Spec.HashSigs.publicKey H ps seed), none, []⟩ := by
  cases ps with
  | nil => exact absurd rfl hne
  | cons p0 rest =>
    have hn : H.n ≤ 32 := by rcases ots_row_n (hrows p0 (by simp)).1 with h | h | h <;> omega
    obtain ⟨pb, vk, hk, _, _, hp⟩ := Props.C14.keygen_within_limits H cfg hv (p0 :: rest) seed hrows hne hlen hlim hsl
      (by simp only [MAX_SEED_LEN]; omega)
    obtain ⟨pb', ps', p0', hb', hskb, hps', hhead, hvk⟩ := hssKeygen_spec hk
    obtain ⟨pb'', hb'', hps'', _⟩ := bytesOfParams_roundtrip cfg H.n (p0 :: rest) hrows hne hlen hlim hsl
    rw [hb'] at hb''
    simp only [Except.ok.injEq, Option.some.injEq] at hb''
    subst hb''
    rw [hps'] at hps''
    simp only [Option.some.injEq] at hps''
    subst hps''
    simp only [List.head?_cons, Option.some.injEq] at hhead
    subst hhead
    rw [bytesOfParams_eq cfg H.n (p0 :: rest) hrows hlen hlim hsl] at hb'
    simp only [Except.ok.injEq, Option.some.injEq] at hb'
    rw [hk, hskb, hvk, ← hb']
    have e1 : (RefKey.mk 0 (List.map (fun p => Spec.HashSigs.paramByte p.lms.typeId p.ots.typeId) (p0 :: rest) ++
        List.replicate (8 - (p0 :: rest).length) 0xff) seed).bytes = Spec.HashSigs.blob (p0 :: rest) seed := by
      simp only [RefKey.bytes, Spec.HashSigs.blob, u64str_eq, Spec.HashSigs.maxLevels, List.append_assoc]
    have e2 : Bytes.u32be (p0 :: rest).length ++ pkBytes H (rootKey H seed p0)
        = Spec.HashSigs.publicKey H (p0 :: rest) seed := by
      rw [pkBytes_eq, rootKey_eq H seed p0 hseed hn]
      simp only [Spec.HashSigs.publicKey, Refine.u32str_eq]
    rw [e1, e2]

/-- the layout of the two keys, spelled out: 8 zero bytes, one byte `lms type * 16 + ots type` per level, `0xff` up
to 8 parameter bytes, the seed; and level count, the two type codes of the top level, identifier, root -/
theorem keygen_layout (H : HashFn) (p0 : HssParam) (rest : List HssParam) (seed : Bytes) :
    Spec.HashSigs.blob (p0 :: rest) seed =
      [0, 0, 0, 0, 0, 0, 0, 0] ++ (p0 :: rest).map (fun p => UInt8.ofNat (p.lms.typeId * 16 + p.ots.typeId)) ++
        List.replicate (8 - (p0 :: rest).length) 0xff ++ seed ∧
    Spec.HashSigs.publicKey H (p0 :: rest) seed =
      Spec.u32str (p0 :: rest).length ++ (Spec.u32str p0.lms.typeId ++ Spec.u32str p0.ots.typeId ++
        (Spec.HashSigs.topSeed H seed).2 ++
        Spec.HashSigs.T H (Spec.HashSigs.topSeed H seed).2 (Spec.HashSigs.topSeed H seed).1 p0.ots.w p0.ots.p p0.lms.h
          p0.lms.h 1) := by
  constructor
  · simp only [Spec.HashSigs.blob, Spec.HashSigs.paramByte, Spec.HashSigs.maxLevels]
    rfl
  · rfl

/-- the nibbles of a parameter byte are the two type codes (for table rows: both codes are below 16) -/
theorem paramByte_nibbles (lmsType otsType : Nat) (h1 : lmsType < 16) (h2 : otsType < 16) :
    (Spec.HashSigs.paramByte lmsType otsType).toNat / 16 = lmsType ∧
    (Spec.HashSigs.paramByte lmsType otsType).toNat % 16 = otsType := by
  simp only [Spec.HashSigs.paramByte, UInt8.toNat_ofNat']
  omega

/-! ### T2: the derivation functions, one by one -/

/-- `generate_root_seed_and_lms_tree_identifier` = hash-sigs top-seed hashing -/
theorem rootSeedAndId_is_topSeed (H : HashFn) (seed : Bytes) (hs : seed.length = H.n) (hn : H.n ≤ 32) :
    rootSeedAndId H seed = Spec.HashSigs.topSeed H seed := rootSeedAndId_eq H seed hs hn

/-- `SeedDerive::seed_derive` = `H(I ‖ u32str(q) ‖ u16str(j) ‖ 0xff ‖ SEED ‖ zero padding to 55 bytes)` -/
theorem seedDerive_is_prng (H : HashFn) (seed I : Bytes) (q j : Nat) (hs : seed.length = H.n) (hn : H.n ≤ 32)
    (hI : I.length = 16) : seedDerive H seed I q j = Spec.HashSigs.prng H seed I q j :=
  seedDerive_eq H seed I q j hI (by omega)

/-- child seed (`j = 0xfffe`) and child identifier (`j = 0xffff`, 16 bytes) -/
theorem childSeedAndId_is_spec (H : HashFn) (seed I : Bytes) (q : Nat) (hs : seed.length = H.n) (hn : H.n ≤ 32)
    (hI : I.length = 16) :
    childSeedAndId H seed I q = (Spec.HashSigs.childSeed H seed I q, Spec.HashSigs.childI H seed I q) :=
  childSeedAndId_eq H seed I q hI (by omega)

/-- signature randomizer (`j = 0xfffd`) -/
theorem signatureRandomizer_is_spec (H : HashFn) (seed I : Bytes) (q : Nat) (hs : seed.length = H.n) (hn : H.n ≤ 32)
    (hI : I.length = 16) : signatureRandomizer H seed I q = Spec.HashSigs.randomizer H seed I q :=
  signatureRandomizer_eq H seed I q hI (by omega)

/-- chain starts: `x[q][i] = H(I ‖ u32str(q) ‖ u16str(i) ‖ 0xff ‖ SEED)`, `i < p` -/
theorem lmotsPrivateKey_is_x (H : HashFn) (I seed : Bytes) (q : Nat) (prm : LmotsParam) :
    lmotsPrivateKey H I (Bytes.u32be q) seed prm = (List.range prm.p).map fun i => Spec.HashSigs.x H I seed q i :=
  lmotsPrivateKey_eq H I seed q prm

/-- one-time public key: `OTS_PUB[q] = H(I ‖ u32str(q) ‖ 0x8080 ‖ y[0] ‖ … ‖ y[p-1])` with `y[i]` the end of the
chain of `2^w - 1` steps from `x[q][i]` -/
theorem lmotsPublicKey_is_otsPub (H : HashFn) (I seed : Bytes) (q : Nat) (prm : LmotsParam) :
    lmotsPublicKey H I (Bytes.u32be q) prm (lmotsPrivateKey H I (Bytes.u32be q) seed prm)
      = Spec.HashSigs.otsPub H I seed prm.w prm.p q := lmotsPublicKey_eq H I seed q prm

/-- leaves: `T[r] = H(I ‖ u32str(r) ‖ 0x8282 ‖ OTS_PUB[r - 2^h])` -/
theorem leafNode_is_T (H : HashFn) (k : LmsKey) (r : Nat) :
    leafNode H k r = Spec.HashSigs.T H k.I k.seed k.ots.w k.ots.p k.lms.h 0 r := leafNode_eq H k r

/-- `get_tree_element` without a cache, for a node `r` on level `j ≤ h` of the tree (`2^j ≤ r < 2^(j+1)`):
RFC 8554 section 5.3 `T[r]` -/
theorem treeNode_is_T (H : HashFn) (k : LmsKey) (r j : Nat) (hj : j ≤ k.lms.h) (hlo : 2 ^ j ≤ r)
    (hhi : r < 2 ^ (j + 1)) :
    treeNode H k r none = (Spec.HashSigs.T H k.I k.seed k.ots.w k.ots.p k.lms.h (k.lms.h - j) r, none) :=
  treeNode_eq H k r j hj hlo hhi

/-- the root -/
theorem treeNode_root_is_T1 (H : HashFn) (k : LmsKey) :
    treeNode H k 1 none = (Spec.HashSigs.root H k.I k.seed k.ots.w k.ots.p k.lms.h, none) := treeNode_root_eq H k

/-- `LmsPublicKey::to_binary_representation` of the root: `u32str(lms type) ‖ u32str(ots type) ‖ I ‖ T[1]` -/
theorem lmsPublicKey_is_spec (H : HashFn) (k : LmsKey) :
    lmsPublicKeyBytes k (treeNode H k 1 none).1 = Spec.HashSigs.lmsPublicKey H k.I k.seed ⟨k.ots, k.lms⟩ := by
  rw [treeNode_root]
  exact pkBytes_eq H k

/-! ### T3: the lower levels of an expanded key -/

/-- T3 for one step: the child tree below `parent` (any parameters `p`, any current leaf `q`) has the child seed and
the child identifier of the parent's seed and identifier at the parent's current leaf, a 16-byte identifier and an
`H.n`-byte seed -/
theorem childLevel_is_spec (H : HashFn) (parent : Level) (p : HssParam) (q : Nat) (hI : parent.key.I.length = 16)
    (hs : parent.key.seed.length = H.n) (h16 : 16 ≤ H.n) (hn : H.n ≤ 32) :
    (childLevel H parent p q).key.seed = Spec.HashSigs.childSeed H parent.key.seed parent.key.I parent.q ∧
    (childLevel H parent p q).key.I = Spec.HashSigs.childI H parent.key.seed parent.key.I parent.q ∧
    (childLevel H parent p q).key.I.length = 16 ∧ (childLevel H parent p q).key.seed.length = H.n ∧
    (childLevel H parent p q).key.ots = p.ots ∧ (childLevel H parent p q).key.lms = p.lms ∧
    (childLevel H parent p q).q = q := by
  obtain ⟨⟨h1, h2⟩, h3, h4⟩ := childLevel_lens H h16 hn parent p q ⟨hI, hs⟩
  exact ⟨h3, h4, h1, h2, rfl, rfl, rfl⟩

/-- T3a. The levels of the key `(counter c, parameters p0 :: rest, seed)`: level 0 has the top seed and identifier of
`seed`; level `j+1` has the child seed and child identifier of level `j` at level `j`'s current leaf. -/
theorem levels_derivation (H : HashFn) (seed : Bytes) (p0 : HssParam) (rest : List HssParam) (c : Nat)
    (hs : seed.length = H.n) (h16 : 16 ≤ H.n) (hn : H.n ≤ 32) :
    (topLevel H seed p0 rest c).key.seed = (Spec.HashSigs.topSeed H seed).1 ∧
    (topLevel H seed p0 rest c).key.I = (Spec.HashSigs.topSeed H seed).2 ∧
    ∀ j (hj : j + 1 < (topLevel H seed p0 rest c :: lowerLevels H seed p0 rest c).length),
      (topLevel H seed p0 rest c :: lowerLevels H seed p0 rest c)[j + 1].key.seed =
        Spec.HashSigs.childSeed H (topLevel H seed p0 rest c :: lowerLevels H seed p0 rest c)[j].key.seed
          (topLevel H seed p0 rest c :: lowerLevels H seed p0 rest c)[j].key.I
          (topLevel H seed p0 rest c :: lowerLevels H seed p0 rest c)[j].q ∧
      (topLevel H seed p0 rest c :: lowerLevels H seed p0 rest c)[j + 1].key.I =
        Spec.HashSigs.childI H (topLevel H seed p0 rest c :: lowerLevels H seed p0 rest c)[j].key.seed
          (topLevel H seed p0 rest c :: lowerLevels H seed p0 rest c)[j].key.I
          (topLevel H seed p0 rest c :: lowerLevels H seed p0 rest c)[j].q := by
  refine ⟨?_, ?_, ?_⟩
  · simp only [topLevel, rootKey_eq H seed p0 hs hn]
  · simp only [topLevel, rootKey_eq H seed p0 hs hn]
  · have hd := (childrenOf_derived H h16 hn (leafVector (p0 :: rest) c) rest 1 (topLevel H seed p0 rest c)
      (topLevel_lens H seed p0 rest c h16)).1
    exact derived_getElem H _ _ hd

/-- T3b. The LMS public keys of levels 1 … L-1 that `HssPrivateKey::from` serialises (and that the signature
carries, see `signature_carries_spec_public_keys`): `u32str(lms type) ‖ u32str(ots type) ‖ I ‖ T[1]` of each lower
level, with that level's own seed and identifier. -/
theorem lower_public_keys (H : HashFn) (seed : Bytes) (p0 : HssParam) (rest : List HssParam) (c : Nat) :
    (expandedOf H seed p0 rest c).pubs =
      (lowerLevels H seed p0 rest c).map fun l =>
        Spec.HashSigs.lmsPublicKey H l.key.I l.key.seed ⟨l.key.ots, l.key.lms⟩ := by
  simp only [expandedOf, pkBytes_eq]

/-- the randomizers: a level signs its child's public key with the randomizer of the CHILD's seed and identifier at
the PARENT's leaf (as `HssPrivateKey::from` does), and the bottom level signs the message with the randomizer of its
own seed and identifier at its own leaf -/
theorem randomizers_are_spec (H : HashFn) (l : Level) (hl : l.key.I.length = 16 ∧ l.key.seed.length = H.n)
    (h16 : 16 ≤ H.n) (hn : H.n ≤ 32) :
    msgC H l = Spec.HashSigs.randomizer H l.key.seed l.key.I l.q ∧
    linkC H l = Spec.HashSigs.randomizer H (Spec.HashSigs.childSeed H l.key.seed l.key.I l.q)
      (Spec.HashSigs.childI H l.key.seed l.key.I l.q) l.q := by
  obtain ⟨hI, hs⟩ := hl
  constructor
  · exact signatureRandomizer_eq H _ _ _ hI (by omega)
  · unfold linkC
    rw [childSeedAndId_eq H _ _ _ hI (by omega)]
    refine signatureRandomizer_eq H _ _ _ ?_ ?_
    · simp only [Spec.HashSigs.childI, List.length_take, prng_length]; omega
    · simp only [Spec.HashSigs.childSeed, prng_length]; omega

/-- T3c. Whatever `hss_sign_core` assembles (no aux data) is
`u32str(L-1) ‖ (sig_i ‖ pub_{i+1})_{i < L-1} ‖ bottom signature`, where `pub_{i+1}` is the specification's LMS public
key of level `i+1` and the levels are derived as in `levels_derivation`. -/
theorem signature_carries_spec_public_keys {H : HashFn} {cfg : Config} {msg : Bytes} {k : RefKey} {hs : List Nat}
    {sig : Bytes} {a : Option Bytes} {r : Bytes} (h : signPrepare H cfg msg k none = .ok (.ready hs sig a r)) :
    ∃ p0 rest, paramsOfBytes cfg H.n k.params = some (p0 :: rest) ∧
      sig = Bytes.u32be rest.length ++
        (List.zipWith (· ++ ·) (sigsOf H (topLevel H k.seed p0 rest k.counter) (lowerLevels H k.seed p0 rest k.counter))
          ((lowerLevels H k.seed p0 rest k.counter).map fun l =>
            Spec.HashSigs.lmsPublicKey H l.key.I l.key.seed ⟨l.key.ots, l.key.lms⟩)).flatten ++
        lmsSigBytes H (bottomLevel H k.seed p0 rest k.counter).key (bottomLevel H k.seed p0 rest k.counter).q msg
          (msgC H (bottomLevel H k.seed p0 rest k.counter)) ∧
      (lowerLevels H k.seed p0 rest k.counter).map levelParam = rest := by
  obtain ⟨p0, rest, hps, _, hsig, _⟩ := signPrepare_layout h
  refine ⟨p0, rest, hps, ?_, childrenOf_params _ _ _ _ _⟩
  rw [hsig, (hssSigBytes_expanded H k.seed p0 rest k.counter msg).1, lower_public_keys]
  have hl : (lowerLevels H k.seed p0 rest k.counter).length = rest.length := childrenOf_length _ _ _ _ _
  simp only [expandedOf, List.length_cons, Nat.add_sub_cancel, hl]

/-! ### the hypotheses are satisfiable -/

/-- a toy hash function with 16-byte output (pad with zeros, truncate) -/
def toyHash : HashFn := ⟨16, fun x => (x ++ List.replicate 16 0).take 16, fun x => by simp [List.length_take]⟩

/-- LM-OTS `w = 8` for a 16-byte hash (18 chains) over an LMS tree of height 5 -/
def toyParam : HssParam := ⟨⟨4, 8, 18, 0⟩, ⟨5, 5⟩⟩

/-- a two-level key under the default build and the toy hash: all hypotheses of `keygen_is_hashsigs` hold -/
example (seed : Bytes) (hseed : seed.length = 16) :
    hssKeygen toyHash Config.default [toyParam, toyParam] seed none =
      .ok ⟨some (Spec.HashSigs.blob [toyParam, toyParam] seed,
                 Spec.HashSigs.publicKey toyHash [toyParam, toyParam] seed), none, []⟩ := by
  refine keygen_is_hashsigs toyHash Config.default (by decide) [toyParam, toyParam] seed ?_ (by simp) (by decide) ?_
    (by decide) hseed
  · intro p hp
    have : p = toyParam := by simpa using hp
    subst this
    exact ⟨⟨"LmotsW8", by decide⟩, ⟨"LmsH5", by decide⟩⟩
  · intro i hi
    have hi' : i < 2 := by simpa using hi
    match i, hi' with
    | 0, _ => exact (by decide : Config.default.withinLimits 0 toyParam = true)
    | 1, _ => exact (by decide : Config.default.withinLimits 1 toyParam = true)

/-- the blob of that key: eight zero bytes, `0x54 0x54`, six `0xff`, the seed -/
example (seed : Bytes) : Spec.HashSigs.blob [toyParam, toyParam] seed =
    [0, 0, 0, 0, 0, 0, 0, 0, 0x54, 0x54, 0xff, 0xff, 0xff, 0xff, 0xff, 0xff] ++ seed := by
  simp only [Spec.HashSigs.blob, Spec.HashSigs.maxLevels]
  rfl

/-- the same under a constant hash function -/
example : hssKeygen ⟨16, fun _ => List.replicate 16 7, fun _ => by simp⟩ Config.default [toyParam, toyParam]
      (List.replicate 16 1) none =
    .ok ⟨some (Spec.HashSigs.blob [toyParam, toyParam] (List.replicate 16 1),
               Spec.HashSigs.publicKey ⟨16, fun _ => List.replicate 16 7, fun _ => by simp⟩ [toyParam, toyParam]
                 (List.replicate 16 1)), none, []⟩ := by
  refine keygen_is_hashsigs _ Config.default (by decide) [toyParam, toyParam] _ ?_ (by simp) (by decide) ?_
    (by decide) (by simp)
  · intro p hp
    have : p = toyParam := by simpa using hp
    subst this
    exact ⟨⟨"LmotsW8", by decide⟩, ⟨"LmsH5", by decide⟩⟩
  · intro i hi
    have hi' : i < 2 := by simpa using hi
    match i, hi' with
    | 0, _ => exact (by decide : Config.default.withinLimits 0 toyParam = true)
    | 1, _ => exact (by decide : Config.default.withinLimits 1 toyParam = true)

/-! ### a concrete key, evaluated -/

/-- a toy hash function that depends on every input byte: the polynomial checksum `c = Σ 31^k * byte mod 65521`,
output byte `i` is `c / (i+1)` -/
def toyMix : HashFn :=
  ⟨16, fun x => (List.range 16).map fun i =>
      UInt8.ofNat ((x.foldl (fun a b => 31 * a + b.toNat) 7) % 65521 / (i + 1)), fun x => by simp⟩

/-- LM-OTS `w = 2` for a 16-byte hash (68 chains of 3 steps) over the 4-leaf test tree -/
def toySmall : HssParam := ⟨⟨2, 2, 68, 6⟩, ⟨1, 2⟩⟩

def toySeed : Bytes := [1, 2, 3, 4, 5, 6, 7, 8, 9, 10, 11, 12, 13, 14, 15, 16]

/-- the specification is executable: the public key of the two-level toy key (evaluated by the kernel) -/
theorem toy_public_key : Spec.HashSigs.publicKey toyMix [toySmall, toySmall] toySeed =
    [0, 0, 0, 2, 0, 0, 0, 1, 0, 0, 0, 2,
     239, 247, 79, 251, 150, 167, 143, 253, 197, 203, 254, 83, 195, 71, 220, 126,
     199, 227, 66, 113, 142, 161, 101, 56, 192, 199, 41, 208, 172, 178, 218, 28] := by decide +kernel

/-- ... and `hss_keygen` returns exactly these bytes (by T1, without running the model) -/
example : hssKeygen toyMix Config.default [toySmall, toySmall] toySeed none =
    .ok ⟨some ([0, 0, 0, 0, 0, 0, 0, 0, 0x12, 0x12, 0xff, 0xff, 0xff, 0xff, 0xff, 0xff,
                1, 2, 3, 4, 5, 6, 7, 8, 9, 10, 11, 12, 13, 14, 15, 16],
               [0, 0, 0, 2, 0, 0, 0, 1, 0, 0, 0, 2,
                239, 247, 79, 251, 150, 167, 143, 253, 197, 203, 254, 83, 195, 71, 220, 126,
                199, 227, 66, 113, 142, 161, 101, 56, 192, 199, 41, 208, 172, 178, 218, 28]), none, []⟩ := by
  have h := keygen_is_hashsigs toyMix Config.default (by decide) [toySmall, toySmall] toySeed
    (by
      intro p hp
      have : p = toySmall := by simpa using hp
      subst this
      exact ⟨⟨"LmotsW2", by decide⟩, ⟨"LmsH2", by decide⟩⟩)
    (by simp) (by decide)
    (by
      intro i hi
      have hi' : i < 2 := by simpa using hi
      match i, hi' with
      | 0, _ => exact (by decide : Config.default.withinLimits 0 toySmall = true)
      | 1, _ => exact (by decide : Config.default.withinLimits 1 toySmall = true))
    (by decide) (by decide)
  rw [h, toy_public_key]
  rfl

end Props.C08Derive

#print axioms Props.C08Derive.keygen_is_hashsigs
#print axioms Props.C08Derive.keygen_layout
#print axioms Props.C08Derive.paramByte_nibbles
#print axioms Props.C08Derive.rootSeedAndId_is_topSeed
#print axioms Props.C08Derive.seedDerive_is_prng
#print axioms Props.C08Derive.childSeedAndId_is_spec
#print axioms Props.C08Derive.signatureRandomizer_is_spec
#print axioms Props.C08Derive.lmotsPrivateKey_is_x
#print axioms Props.C08Derive.lmotsPublicKey_is_otsPub
#print axioms Props.C08Derive.leafNode_is_T
#print axioms Props.C08Derive.treeNode_is_T
#print axioms Props.C08Derive.treeNode_root_is_T1
#print axioms Props.C08Derive.lmsPublicKey_is_spec
#print axioms Props.C08Derive.childLevel_is_spec
#print axioms Props.C08Derive.levels_derivation
#print axioms Props.C08Derive.lower_public_keys
#print axioms Props.C08Derive.randomizers_are_spec
#print axioms Props.C08Derive.signature_carries_spec_public_keys
#print axioms Props.C08Derive.toy_public_key

/-
C14 - building the library with a smaller maximum level count, smaller maximum tree heights or larger minimum
Winternitz parameters only restricts which parameter lists are accepted: every list within the limits yields the
same private key, public key and signatures as the default build and remains fully usable (all compile-time
capacities suffice), while lists beyond the limits are refused with an error, not a crash.

`cfg : Config` is the build configuration (`HBS_LMS_MAX_ALLOWED_HSS_LEVELS`, `HBS_LMS_TREE_HEIGHTS`,
`HBS_LMS_WINTERNITZ_PARAMETERS`); `cfg.valid` is what `build.rs` accepts, `cfg.wellFormed` additionally asks that the
configured Winternitz values are table values (otherwise the crate does not compile: `get_num_winternitz_chains`
panics in a `const` context).
-/
import HbsLms.Lemmas.SignTotal
import HbsLms.Props.C04

namespace Props.C14

open Impl Lemmas Generated

/-! ### T0 - the default build, and the source text the capacity model mirrors -/

theorem default_valid : Config.default.valid = true := by decide
theorem default_wellFormed : Config.default.wellFormed = true := by decide

/-- the default build: 8 levels, height 25 and `w = 1` everywhere -/
theorem default_limits : Config.default.maxLevels = 8 ∧
    ∀ l, l < 8 → Config.default.heights.getD l 0 = 25 ∧ Config.default.winternitz.getD l 0 = 1 := by decide

/- `Config.maxHssSigLen` mirrors `constants.rs::get_hss_signature_length`. It used to be tied to the source *text*;
that tie raised an alarm on behaviour-preserving rewrites of the function, so it is now tied by *value*: the `consts`
request compares MAX_HSS_SIGNATURE_LENGTH (and every other capacity) of the compiled library with the model's
`Config` under every build configuration the check explores (tools/props/C14.py). -/

/-! ### T1 - what a restricted build accepts, and that its capacities suffice (part A) -/

/-- Everything `CompressedParameterSet::to` guarantees about an accepted list under a well-formed configuration:
it is non-empty, has at most `maxLevels` levels, level `i` respects the configured height and Winternitz limits
(which are within `MAX_TREE_HEIGHT` / `MIN_WINTERNITZ`), all parameters are table rows, the signature length fits a
`u16`; and every capacity suffices: chain counts ≤ `MAX_NUM_WINTERNITZ_CHAINS`, each LMS signature ≤
`MAX_LMS_SIGNATURE_LENGTH`, the HSS signature ≤ `MAX_HSS_SIGNATURE_LENGTH`. -/
theorem accepted_list_fits (cfg : Config) (hwf : cfg.wellFormed = true) (n : Nat) (bs : Bytes) (ps : List HssParam)
    (h : paramsOfBytes cfg n bs = some ps) :
    ps ≠ [] ∧ ps.length ≤ cfg.maxLevels ∧ (n = 16 ∨ n = 24 ∨ n = 32) ∧
    (∀ i (hi : i < ps.length),
      ps[i].lms.h ≤ cfg.heights.getD i 0 ∧ cfg.heights.getD i 0 ≤ cfg.maxTreeHeight ∧
      cfg.winternitz.getD i 0 ≤ ps[i].ots.w ∧ cfg.minWinternitz ≤ cfg.winternitz.getD i 0 ∧
      (∃ t, Params.lmotsFromU32 n t = some ps[i].ots) ∧ (∃ t, Params.lmsFromU32 t = some ps[i].lms) ∧
      ps[i].ots.p ≤ cfg.maxChains ∧
      lms_signature_length n ps[i].ots.p ps[i].lms.h ≤ cfg.maxLmsSigLen) ∧
    hssSigLen n ps ≤ 65535 ∧ hssSigLen n ps ≤ cfg.maxHssSigLen := by
  have hok := paramsOfBytes_ok h
  refine ⟨hok.ne, (params_length_le hok).2, params_n hok, ?_, hok.sigLen, hssSigLen_le_max hwf hok⟩
  intro i hi
  have hl := hok.level i hi
  have hc := level_caps hwf hl
  exact ⟨hc.2.1, hc.2.2.1, hc.2.2.2.1, hc.2.2.2.2.1, hl.otsU32, hl.lmsU32, hc.2.2.2.2.2.2.1,
    hc.2.2.2.2.2.2.2.2.2.2⟩

/-! ### T2 - limits only restrict -/

/-- on table rows, whatever a valid configuration allows at a level the default build allows too -/
theorem withinLimits_default {cfg : Config} (hv : cfg.valid = true) {n level : Nat} {p : HssParam}
    (ho : IsOtsRow n p.ots) (hl : IsLmsRow p.lms) (h : cfg.withinLimits level p = true) :
    Config.default.withinLimits level p = true := by
  obtain ⟨_, h8, _, _⟩ := valid_facts hv
  simp only [Config.withinLimits, Bool.and_eq_true, decide_eq_true_eq, ge_iff_le] at h ⊢
  have hlev : level < 8 := by omega
  obtain ⟨hh, hw⟩ := default_limits.2 level hlev
  rw [hh, hw, default_limits.1]
  have h25 := (lms_row_good2 hl).1
  have hw1 : 1 ≤ p.ots.w := by rcases w_cases (ots_row_good' ho) with h | h | h | h <;> omega
  exact ⟨⟨hlev, h25⟩, hw1⟩

/-- **monotonicity**: whatever a restricted build accepts, the default build accepts, with the same parameter list -/
theorem accepted_by_default (cfg : Config) (hv : cfg.valid = true) (n : Nat) (bs : Bytes) (ps : List HssParam)
    (h : paramsOfBytes cfg n bs = some ps) : paramsOfBytes Config.default n bs = some ps :=
  paramsOfBytes_go_mono cfg Config.default n (fun _ _ ho hl hw => withinLimits_default hv ho hl hw) bs 0 [] ps h

/-- **exact characterisation**: a restricted build accepts a compressed parameter set iff the default build accepts
it and every level is within the configured limits (level count, height, Winternitz parameter) - nothing else
distinguishes the two builds -/
theorem accepted_iff (cfg : Config) (hv : cfg.valid = true) (n : Nat) (bs : Bytes) (ps : List HssParam) :
    paramsOfBytes cfg n bs = some ps ↔
      paramsOfBytes Config.default n bs = some ps ∧ ∀ i (h : i < ps.length), cfg.withinLimits i ps[i] = true := by
  constructor
  · intro h
    exact ⟨accepted_by_default cfg hv n bs ps h, fun i hi => ((paramsOfBytes_ok h).level i hi).within⟩
  · intro ⟨h, hlim⟩
    exact paramsOfBytes_go_restrict cfg Config.default n bs 0 [] ps rfl h (fun i hi _ => hlim i hi)

/-- the same for `CompressedParameterSet::from` (key generation side) -/
theorem bytesOfParams_default (cfg : Config) (hv : cfg.valid = true) (n : Nat) (ps : List HssParam) (pb : Bytes)
    (hrows : ∀ p ∈ ps, IsOtsRow n p.ots ∧ IsLmsRow p.lms) (h : bytesOfParams cfg n ps = .ok (some pb)) :
    bytesOfParams Config.default n ps = .ok (some pb) := by
  obtain ⟨_, h8, _, _⟩ := valid_facts hv
  unfold bytesOfParams at h ⊢
  split at h
  · simp [pure, Except.pure] at h
  · rename_i hlen
    split at h
    · simp [pure, Except.pure] at h
    · rename_i hall
      have h1 : ¬ ps.length > Config.default.maxLevels := by rw [default_limits.1]; omega
      rw [if_neg h1]
      split
      · rename_i hc
        exfalso
        rw [Bool.not_eq_true', ← Bool.not_eq_true] at hc
        rw [Bool.not_eq_true', Bool.not_eq_false] at hall
        apply hc
        apply List.all_eq_true.mpr
        intro i hi
        have hc := List.all_eq_true.mp hall i hi
        have hi' : i < ps.length := List.mem_range.mp hi
        simp only [List.getElem?_eq_getElem hi'] at hc ⊢
        obtain ⟨ho, hl⟩ := hrows ps[i] (List.getElem_mem hi')
        exact withinLimits_default hv ho hl hc
      · exact h

/-! ### T3 - within the limits the results are those of the default build -/

/-- **signatures**: for a private key whose parameter bytes the restricted build accepts, signing under the restricted
build and under the default build gives the same outcome: same signature bytes, same successor private key handed to
the callback, same verdict. (No aux buffer; see `sign_same_as_default_aux` for the buffer.) -/
theorem sign_same_as_default (H : HashFn) (cfg : Config) (hwf : cfg.wellFormed = true) (msg sk : Bytes)
    (cb : Bytes → Bool) (k : RefKey) (hk : RefKey.parse H.n sk = some k)
    (hacc : paramsOfBytes cfg H.n k.params ≠ none) :
    hssSign H cfg msg sk cb none = hssSign H Config.default msg sk cb none := by
  apply hssSign_indep H cfg Config.default hwf default_wellFormed msg sk cb none _ (auxAlike_none H _ _)
  intro k' hk'
  rw [hk] at hk'
  simp only [Option.some.injEq] at hk'
  subst hk'
  cases hp : paramsOfBytes cfg H.n k.params with
  | none => exact absurd hp hacc
  | some ps => exact (accepted_by_default cfg (wellFormed_valid hwf) H.n _ ps hp).symm

/-- with an aux buffer, when the restricted build keeps the default `MAX_TREE_HEIGHT` (e.g. only the level count or
the Winternitz limits were changed, or some but not all heights were lowered) -/
theorem sign_same_as_default_aux (H : HashFn) (cfg : Config) (hwf : cfg.wellFormed = true) (msg sk : Bytes)
    (cb : Bytes → Bool) (aux : Option Bytes) (k : RefKey) (hk : RefKey.parse H.n sk = some k)
    (hacc : paramsOfBytes cfg H.n k.params ≠ none) (hh : cfg.maxTreeHeight = Config.default.maxTreeHeight) :
    hssSign H cfg msg sk cb aux = hssSign H Config.default msg sk cb aux := by
  apply hssSign_indep H cfg Config.default hwf default_wellFormed msg sk cb aux _ (auxAlike_of_height H _ _ aux hh)
  intro k' hk'
  rw [hk] at hk'
  simp only [Option.some.injEq] at hk'
  subst hk'
  cases hp : paramsOfBytes cfg H.n k.params with
  | none => exact absurd hp hacc
  | some ps => exact (accepted_by_default cfg (wellFormed_valid hwf) H.n _ ps hp).symm

/- FULL STATEMENT (not proved):
   theorem sign_same_as_default_any_aux (H : HashFn) (cfg : Config) (hwf : cfg.wellFormed = true) (msg sk : Bytes)
       (cb : Bytes → Bool) (aux : Option Bytes) (k : RefKey) (hk : RefKey.parse H.n sk = some k)
       (hacc : paramsOfBytes cfg H.n k.params ≠ none) :
       hssSign H cfg msg sk cb aux = hssSign H Config.default msg sk cb aux
   What is missing: with an aux buffer, `hss_expand_aux_data` walks the level bits `0 ..= MAX_TREE_HEIGHT`, so a build
   with a smaller `MAX_TREE_HEIGHT` lays out (and MACs) a buffer whose level word has higher bits set differently
   from the default build; the statement needs either `cfg.maxTreeHeight = Config.default.maxTreeHeight` (below) or a
   hypothesis that the level word of the buffer has no bit above `cfg.maxTreeHeight` (true for buffers this build
   initialised itself, not for arbitrary bytes). The signature bytes themselves never depend on the buffer contents
   only if the buffer is authentic (C10). -/
theorem sign_same_as_default_any_aux_partial (H : HashFn) (cfg : Config) (hwf : cfg.wellFormed = true) (msg sk : Bytes)
    (cb : Bytes → Bool) (aux : Option Bytes) (k : RefKey) (hk : RefKey.parse H.n sk = some k)
    (hacc : paramsOfBytes cfg H.n k.params ≠ none)
    (hh : aux = none ∨ cfg.maxTreeHeight = Config.default.maxTreeHeight) :
    hssSign H cfg msg sk cb aux = hssSign H Config.default msg sk cb aux := by
  rcases hh with rfl | hh
  · exact sign_same_as_default H cfg hwf msg sk cb k hk hacc
  · exact sign_same_as_default_aux H cfg hwf msg sk cb aux k hk hacc hh

/-- weaker hypotheses, weaker conclusion: for ANY two configurations and any aux buffer they treat alike, if neither
signing run panics the prepared signatures coincide (the configuration enters only through capacity checks) -/
theorem signPrepare_config_independent (H : HashFn) (cfg cfg' : Config) (msg : Bytes) (k : RefKey) (aux : Option Bytes)
    (hps : paramsOfBytes cfg H.n k.params = paramsOfBytes cfg' H.n k.params) (haux : AuxAlike H cfg cfg' aux)
    (p p' : Prepared) (h : signPrepare H cfg msg k aux = .ok p) (h' : signPrepare H cfg' msg k aux = .ok p') :
    p = p' :=
  signPrepare_agree H cfg cfg' msg k aux hps haux p p' h h'

/-- **private and public key**: whenever key generation succeeds under the restricted build, the default build
generates the same private key and the same public key from the same seed -/
theorem keygen_same_as_default (H : HashFn) (cfg : Config) (hv : cfg.valid = true) (ps : List HssParam)
    (seed : Bytes) (hrows : ∀ p ∈ ps, IsOtsRow H.n p.ots ∧ IsLmsRow p.lms) (o : KeygenOutcome)
    (h : hssKeygen H cfg ps seed none = .ok o) (hres : o.result ≠ none) :
    hssKeygen H Config.default ps seed none = .ok o := by
  unfold hssKeygen at h
  cases hb : bytesOfParams cfg H.n ps with
  | error e => simp [hb, bind, Except.bind] at h
  | ok r =>
    cases r with
    | none =>
      simp only [hb, bind, Except.bind, pure, Except.pure, Except.ok.injEq] at h
      subst h
      exact absurd rfl hres
    | some pb =>
      have hb' := bytesOfParams_default cfg hv H.n ps pb hrows hb
      simp only [hb, bind, Except.bind, pure, Except.pure] at h
      cases hp : paramsOfBytes cfg H.n pb with
      | none =>
        simp only [hp, Except.ok.injEq] at h
        subst h
        exact absurd rfl hres
      | some ps' =>
        have hp' := accepted_by_default cfg hv H.n pb ps' hp
        unfold hssKeygen
        simp only [hb', bind, Except.bind, pure, Except.pure, hp']
        simp only [hp] at h
        cases ps' with
        | nil => exact h
        | cons p0 rest =>
          simp only [List.head?_cons, getExpandedAuxData, treeNode_none, Option.map_none] at h ⊢
          exact h

/-- **verification** does not depend on the build either: a signature with at most `cfg.maxLevels` levels gets the
same verdict from the restricted and from the default build -/
theorem verify_same_as_default (H : HashFn) (cfg : Config) (hv : cfg.valid = true) (msg sig pk : Bytes)
    (hlev : ∀ lb, readAt sig 4 0 = some lb → Bytes.toNat lb + 1 ≤ cfg.maxLevels) :
    hssVerify H cfg msg sig pk = hssVerify H Config.default msg sig pk := by
  obtain ⟨_, h8, _, _⟩ := valid_facts hv
  unfold hssVerify InMemHssSig.parse
  cases hr : readAt sig 4 0 with
  | none => rfl
  | some lb =>
    have := hlev lb hr
    have h1 : ¬ Bytes.toNat lb > cfg.maxLevels - 1 := by omega
    have h2 : ¬ Bytes.toNat lb > Config.default.maxLevels - 1 := by rw [default_limits.1]; omega
    simp only [h1, h2, if_false]

/-- a signature the restricted build accepts is accepted by the default build -/
theorem verify_accepted_by_default (H : HashFn) (cfg : Config) (hv : cfg.valid = true) (msg sig pk : Bytes)
    (h : hssVerify H cfg msg sig pk = .ok true) : hssVerify H Config.default msg sig pk = .ok true := by
  obtain ⟨hm1, _⟩ := valid_facts hv
  rw [← verify_same_as_default H cfg hv msg sig pk]
  · exact h
  · intro lb hr
    unfold hssVerify InMemHssSig.parse at h
    simp only [hr] at h
    split at h
    · simp [pure, Except.pure] at h
    · rename_i heq
      split at heq
      · simp at heq
      · omega

/-! ### T4 - "remains fully usable": the signature object of the restricted build holds every signature it makes -/

/-- whenever the restricted build assembles a signature, it fits the `u16`-length ArrayVec and
`MAX_HSS_SIGNATURE_LENGTH`, so it is released as soon as the callback accepts the successor key; and the
capacity-checked verification entry point does not refuse it for its length -/
theorem released_signature_fits (H : HashFn) (cfg : Config) (msg sk : Bytes)
    (cb : Bytes → Bool) (aux : Option Bytes) (o : SignOutcome) (sig : Bytes)
    (h : hssSign H cfg msg sk cb aux = .ok o) (hs : o.result = some sig) :
    sig.length ≤ 65535 ∧ sig.length ≤ cfg.maxHssSigLen ∧
    ∀ pk, pk.length ≤ Config.maxHssPkLen →
      verifyEntry .viaSignature H cfg msg sig pk = hssVerify H cfg msg sig pk := by
  have hfit : sig.length ≤ 65535 ∧ sig.length ≤ cfg.maxHssSigLen := by
    rcases C04.hssSign_cases h with ⟨_, rfl⟩ | ⟨k, p, hk, hp, rfl⟩
    · simp at hs
    · cases p with
      | failed a r => simp [signCommit] at hs
      | ready hts sg a r =>
        simp only [signCommit] at hs
        split at hs
        · simp at hs
        · split at hs
          · simp at hs
          · rename_i hno
            simp only [Option.some.injEq] at hs
            subst hs
            simp only [Bool.or_eq_true, decide_eq_true_eq, not_or] at hno
            omega
  refine ⟨hfit.1, hfit.2, ?_⟩
  intro pk hpk
  have : ¬ (sig.length > 65535 ∨ sig.length > cfg.maxHssSigLen ∨ pk.length > Config.maxHssPkLen) := by omega
  simp only [verifyEntry, Bool.or_eq_true, decide_eq_true_eq]
  rw [if_neg (by omega)]

/-- the callback's verdict is the only thing that decides whether an assembled signature is released -/
theorem usable_iff_callback_accepts (H : HashFn) (cfg : Config) (hwf : cfg.wellFormed = true) (msg sk : Bytes)
    (cb : Bytes → Bool) (aux : Option Bytes) (k : RefKey) (hs : List Nat) (sig : Bytes) (a : Option Bytes) (r : Bytes)
    (hk : RefKey.parse H.n sk = some k) (hp : signPrepare H cfg msg k aux = .ok (.ready hs sig a r)) :
    hssSign H cfg msg sk cb aux =
      .ok ⟨if cb (k.increment H.n hs).bytes then some sig else none, [(k.increment H.n hs).bytes], a, r⟩ := by
  obtain ⟨_, hkp, hks, _⟩ := parse_some hk
  obtain ⟨p', hp', hb⟩ := signPrepare_ok H cfg hwf msg k aux hkp hks
  rw [hp] at hp'
  simp only [Except.ok.injEq] at hp'
  obtain ⟨_, _, _, h2, h3⟩ := hb hs sig a r hp'.symm
  have hno : ¬ (sig.length > 65535 ∨ sig.length > cfg.maxHssSigLen) := by omega
  unfold hssSign
  simp only [hk, hp, bind, Except.bind, pure, Except.pure, signCommit]
  by_cases hcb : cb (k.increment H.n hs).bytes = true
  · simp [hcb, hno]
  · simp [hcb]

/-- **key generation within the limits succeeds**, under the restricted build exactly as under the default build:
for a non-empty list of table rows with at most `maxLevels` levels, each inside the configured limits, whose
signature length fits a `u16`, and a seed of at most `MAX_SEED_LEN` bytes, `hss_keygen` returns the private key
`u64(0) ‖ compressed parameters ‖ seed` and a public key; the compressed parameters decode (under this build) to the
very list that was passed in. -/
theorem keygen_within_limits (H : HashFn) (cfg : Config) (hv : cfg.valid = true) (ps : List HssParam) (seed : Bytes)
    (hrows : ∀ p ∈ ps, IsOtsRow H.n p.ots ∧ IsLmsRow p.lms) (hne : ps ≠ [])
    (hlen : ps.length ≤ cfg.maxLevels) (hlim : ∀ i (h : i < ps.length), cfg.withinLimits i ps[i] = true)
    (hsl : hssSigLen H.n ps ≤ 65535) (hseed : seed.length ≤ MAX_SEED_LEN) :
    ∃ pb vk, hssKeygen H cfg ps seed none = .ok ⟨some (Bytes.u64be 0 ++ pb ++ seed, vk), none, []⟩ ∧
      hssKeygen H Config.default ps seed none = .ok ⟨some (Bytes.u64be 0 ++ pb ++ seed, vk), none, []⟩ ∧
      pb.length = 8 ∧ paramsOfBytes cfg H.n pb = some ps := by
  obtain ⟨_, h8, _, _⟩ := valid_facts hv
  obtain ⟨pb, hb, hp, hpl⟩ := bytesOfParams_roundtrip cfg H.n ps hrows hne hlen hlim hsl
  have hpl8 : pb.length = 8 := hpl (by omega)
  clear hpl
  cases ps with
  | nil => exact absurd rfl hne
  | cons p0 rest =>
    have hn : H.n ≤ 32 := by rcases ots_row_n (hrows p0 (by simp)).1 with h | h | h <;> omega
    have hkey : hssKeygen H cfg (p0 :: rest) seed none = .ok ⟨some (Bytes.u64be 0 ++ pb ++ seed,
        Bytes.u32be (p0 :: rest).length ++ lmsPublicKeyBytes
          ⟨(rootSeedAndId H seed).2, (rootSeedAndId H seed).1, p0.ots, p0.lms⟩
          (treeNode H ⟨(rootSeedAndId H seed).2, (rootSeedAndId H seed).1, p0.ots, p0.lms⟩ 1 none).1), none, []⟩ := by
      unfold hssKeygen
      simp only [hb, bind, Except.bind, pure, Except.pure, hp, List.head?_cons, getExpandedAuxData, treeNode_none,
        Option.map_none]
      have h1 : ¬ (RefKey.bytes ⟨0, pb, seed⟩).length > Config.maxPrivKeyLen := by
        rw [bytes_length]
        simp only [Config.maxPrivKeyLen, REF_IMPL_MAX_PRIVATE_KEY_SIZE, MAX_SEED_LEN] at hseed ⊢
        omega
      have hpk := pkb_le (n := H.n) ⟨(rootSeedAndId H seed).2, (rootSeedAndId H seed).1, p0.ots, p0.lms⟩
        (treeNode H ⟨(rootSeedAndId H seed).2, (rootSeedAndId H seed).1, p0.ots, p0.lms⟩ 1 none).1
        (root_I_length H seed) (treeNode_length H _ 1 none) hn
      have h2 : ¬ (Bytes.u32be (p0 :: rest).length ++ lmsPublicKeyBytes
          ⟨(rootSeedAndId H seed).2, (rootSeedAndId H seed).1, p0.ots, p0.lms⟩
          (treeNode H ⟨(rootSeedAndId H seed).2, (rootSeedAndId H seed).1, p0.ots, p0.lms⟩ 1 none).1).length >
            Config.maxHssPkLen := by
        rw [List.length_append, u32be_length]
        have := hpk.1
        simp only [Config.maxLmsPkLen, Config.maxHssPkLen] at this ⊢
        omega
      rw [if_neg h1, if_neg h2]
      simp [auxAfter, RefKey.bytes]
    exact ⟨pb, _, hkey, keygen_same_as_default H cfg hv _ seed hrows _ hkey (by simp), hpl8, hp⟩

/-- the generated private key parses back, so signing with it goes through `sign_same_as_default` -/
theorem generated_key_parses (n : Nat) (pb seed : Bytes) (hpb : pb.length = 8) (hs : seed.length = n) :
    RefKey.parse n (Bytes.u64be 0 ++ pb ++ seed) = some ⟨0, pb, seed⟩ := by
  have h8 : (Bytes.u64be 0).length = 8 := be_length 8 0
  rw [parse_eq]
  have hlen : (Bytes.u64be 0 ++ pb ++ seed).length = 16 + n := by
    simp only [List.length_append, h8, hpb, hs]
  rw [if_pos hlen]
  have e1 : (Bytes.u64be 0 ++ pb ++ seed).take 8 = Bytes.u64be 0 := by
    rw [List.append_assoc, List.take_append_of_le_length (by omega), List.take_of_length_le (by omega)]
  have e2 : (Bytes.u64be 0 ++ pb ++ seed).drop 8 = pb ++ seed := by
    rw [List.append_assoc, List.drop_append_of_le_length (by omega), List.drop_of_length_le (by omega)]
    rfl
  have e3 : (Bytes.u64be 0 ++ pb ++ seed).drop 16 = seed := by
    have : (Bytes.u64be 0 ++ pb).length = 16 := by simp [h8, hpb]
    rw [List.drop_append_of_le_length (by omega), List.drop_of_length_le (by omega)]
    rfl
  rw [e1, e2, e3, List.take_append_of_le_length (by omega), List.take_of_length_le (by omega),
    List.take_of_length_le (by omega)]
  have : Bytes.toNat (Bytes.u64be 0) = 0 := by decide
  rw [this]

/-! ### T5 - beyond the limits: an error, not a crash -/

/-- signing with a key whose parameter bytes are beyond the limits of this build: `Err`, callback not invoked -/
theorem sign_beyond_limits (H : HashFn) (cfg : Config) (msg sk : Bytes) (cb : Bytes → Bool) (aux : Option Bytes)
    (k : RefKey) (hk : RefKey.parse H.n sk = some k) (hp : paramsOfBytes cfg H.n k.params = none) :
    hssSign H cfg msg sk cb aux = .ok ⟨none, [], aux, []⟩ :=
  C04.unusable_parameters_fail_before_callback H cfg msg sk cb aux k hk hp

/-- one level outside the limits (too many levels, tree too high, Winternitz parameter too small) makes the whole
compressed parameter set unacceptable -/
theorem beyond_limits_refused (cfg : Config) (hv : cfg.valid = true) (n : Nat) (bs : Bytes) (ps : List HssParam)
    (hd : paramsOfBytes Config.default n bs = some ps) (i : Nat) (hi : i < ps.length)
    (hout : cfg.withinLimits i ps[i] = false) : paramsOfBytes cfg n bs = none := by
  cases h : paramsOfBytes cfg n bs with
  | none => rfl
  | some ps' =>
    have h' := accepted_by_default cfg hv n bs ps' h
    rw [hd] at h'
    simp only [Option.some.injEq] at h'
    subst h'
    have := ((paramsOfBytes_ok h).level i hi).within
    rw [hout] at this
    simp at this

/-- key generation never panics and a refused list is an error outcome with the aux buffer untouched -/
theorem keygen_beyond_limits (H : HashFn) (cfg : Config) (ps : List HssParam) (seed : Bytes) (aux : Option Bytes)
    (h : bytesOfParams cfg H.n ps = .ok none) : hssKeygen H cfg ps seed aux = .ok ⟨none, aux, []⟩ :=
  hssKeygen_refused H cfg ps seed aux h

/-- which lists `CompressedParameterSet::from` refuses: too many levels, or a level outside the limits (for table
rows it never panics: `bytesOfParams_ok`) -/
theorem bytesOfParams_refuses (cfg : Config) (n : Nat) (ps : List HssParam)
    (h : ps.length > cfg.maxLevels ∨ ∃ i, ∃ hi : i < ps.length, cfg.withinLimits i ps[i] = false) :
    bytesOfParams cfg n ps = .ok none := by
  unfold bytesOfParams
  by_cases hlen : ps.length > cfg.maxLevels
  · simp [hlen, pure, Except.pure]
  · rcases h with h | ⟨i, hi, hout⟩
    · exact absurd h hlen
    · rw [if_neg hlen]
      split
      · rfl
      · rename_i hall
        exfalso
        rw [Bool.not_eq_true', Bool.not_eq_false] at hall
        have := List.all_eq_true.mp hall i (List.mem_range.mpr hi)
        simp only [List.getElem?_eq_getElem hi, hout] at this
        simp at this

/-- key generation beyond the limits, concretely -/
theorem keygen_level_outside (H : HashFn) (cfg : Config) (ps : List HssParam) (seed : Bytes) (aux : Option Bytes)
    (h : ps.length > cfg.maxLevels ∨ ∃ i, ∃ hi : i < ps.length, cfg.withinLimits i ps[i] = false) :
    hssKeygen H cfg ps seed aux = .ok ⟨none, aux, []⟩ :=
  keygen_beyond_limits H cfg ps seed aux (bytesOfParams_refuses cfg H.n ps h)

/-! ### the hypotheses are satisfiable: a restricted build -/

example : (Config.mk 2 [10, 5] [2, 4]).wellFormed = true := by decide
example : (Config.mk 2 [10, 5] [2, 4]).maxTreeHeight = 10 ∧ (Config.mk 2 [10, 5] [2, 4]).minWinternitz = 2 := by decide
/-- H10/W2 over H5/W4 (bytes 0x62 0x53) is accepted by that build, H15 on top is not -/
example : (paramsOfBytes (Config.mk 2 [10, 5] [2, 4]) 32 [0x62, 0x53, 0xff, 0xff, 0xff, 0xff, 0xff, 0xff]).isSome = true ∧
    paramsOfBytes (Config.mk 2 [10, 5] [2, 4]) 32 [0x72, 0x53, 0xff, 0xff, 0xff, 0xff, 0xff, 0xff] = none := by
  decide +kernel

end Props.C14

#print axioms Props.C14.default_wellFormed
#print axioms Props.C14.accepted_list_fits
#print axioms Props.C14.accepted_by_default
#print axioms Props.C14.accepted_iff
#print axioms Props.C14.bytesOfParams_default
#print axioms Props.C14.sign_same_as_default
#print axioms Props.C14.sign_same_as_default_aux
#print axioms Props.C14.sign_same_as_default_any_aux_partial
#print axioms Props.C14.signPrepare_config_independent
#print axioms Props.C14.keygen_same_as_default
#print axioms Props.C14.keygen_within_limits
#print axioms Props.C14.generated_key_parses
#print axioms Props.C14.verify_same_as_default
#print axioms Props.C14.verify_accepted_by_default
#print axioms Props.C14.released_signature_fits
#print axioms Props.C14.usable_iff_callback_accepts
#print axioms Props.C14.sign_beyond_limits
#print axioms Props.C14.beyond_limits_refused
#print axioms Props.C14.keygen_beyond_limits
#print axioms Props.C14.bytesOfParams_refuses
#print axioms Props.C14.keygen_level_outside

/-
C13 - leaf selection follows the reference's mixed-radix rule for every key shape.
Property theorems only; helper lemmas are in `Lemmas/Counter.lean`.
-/
import HbsLms.Lemmas.Counter

namespace Props.C13

open Impl Spec

/-- For EVERY list of levels (any length, any heights, no bound on the total height) and EVERY counter, the
leaf index the library computes for each level (`CompressedUsedLeafsIndexes::to`: mask, then shift, from the
bottom level up) is the corresponding digit of the counter written in mixed radix with the per-level tree
sizes, bottom level least significant. -/
theorem leaves_are_mixed_radix_digits (hs : List Nat) (c : Nat) :
    leavesOfCounter hs c = mixedRadix hs c :=
  Lemmas.leavesOfCounter_eq hs c

/-- one leaf index per level, each a valid leaf of its tree -/
theorem leaves_in_range (hs : List Nat) (c : Nat) :
    (leavesOfCounter hs c).length = hs.length ∧
    ∀ i, i < hs.length → (leavesOfCounter hs c).getD i 0 < 2 ^ hs.getD i 0 := by
  rw [leaves_are_mixed_radix_digits]
  exact ⟨Lemmas.mixedRadix_length hs c, fun i hi => Lemmas.mixedRadix_lt hs c i hi⟩

/-- Two different counters below the number of leaves never select the same leaf vector: a key file that moves
between two implementations which both read the counter this way cannot reuse a leaf. -/
theorem distinct_counters_select_distinct_leaves (hs : List Nat) (c c' : Nat)
    (hc : c < leavesTotal hs) (hc' : c' < leavesTotal hs) (hne : c ≠ c') :
    leavesOfCounter hs c ≠ leavesOfCounter hs c' := by
  intro h
  rw [leaves_are_mixed_radix_digits, leaves_are_mixed_radix_digits] at h
  exact hne (Lemmas.mixedRadix_injective hs c c' hc hc' h)

/-- Successor: total height at most 63 - `c+1` until the last leaf, the wiped state (`none`) after it. -/
theorem successor_le63 (hs : List Nat) (c : Nat) (hsum : hs.sum ≤ 63) :
    incrementCounter hs c = if c + 1 < leavesTotal hs then some (c + 1) else none :=
  Lemmas.incrementCounter_le63 hs c hsum

/-- Taller lists (which key generation accepts) are handled without arithmetic failure and the key is never
reported exhausted early: the successor is `c+1` for every counter the 8 bytes can hold but the last. -/
theorem successor_tall (hs : List Nat) (c : Nat) (hsum : 64 ≤ hs.sum) :
    incrementCounter hs c = if c + 1 < 2 ^ 64 then some (c + 1) else none :=
  Lemmas.incrementCounter_ge64 hs c hsum

/-- the wiped key is what `RefKey.increment` yields exactly when the last leaf was used -/
theorem increment_wipes_exactly_at_last_leaf (k : RefKey) (n : Nat) (hs : List Nat) (hsum : hs.sum ≤ 63) :
    k.increment n hs = if k.counter + 1 < leavesTotal hs then { k with counter := k.counter + 1 } else RefKey.wiped n := by
  unfold RefKey.increment
  rw [successor_le63 hs k.counter hsum]
  by_cases h : k.counter + 1 < leavesTotal hs <;> simp [h]

-- non-vacuity: a 3-level key H5/H10/H2 at a roll-over counter (bottom tree exhausted, middle tree advances)
example : leavesOfCounter [5, 10, 2] (3 * 4096 + 7 * 4 + 0) = [3, 7, 0] := by decide
example : incrementCounter [5, 10, 2] (2 ^ 17 - 1) = none := by decide
example : incrementCounter [10, 10, 10, 10, 10, 10, 5] (2 ^ 64 - 2) = some (2 ^ 64 - 1) := by decide

end Props.C13

#print axioms Props.C13.leaves_are_mixed_radix_digits
#print axioms Props.C13.leaves_in_range
#print axioms Props.C13.distinct_counters_select_distinct_leaves
#print axioms Props.C13.successor_le63
#print axioms Props.C13.successor_tall
#print axioms Props.C13.increment_wipes_exactly_at_last_leaf

/-
LM-OTS: `util/coef.rs`, `lm_ots/parameters.rs` (checksum), `hasher/mod.rs` (hash chains),
`lm_ots/keygen.rs`, `lm_ots/signing.rs`, `lm_ots/verify.rs`.
-/
import HbsLms.Impl.Params

open Generated

namespace Impl

/-- `util::coef::coef(byte_string, i, w)`: index, shift and mask exactly as computed in Rust (`!i` on `u16`) -/
def coefIndex (i w : Nat) : Nat := (i * w) / 8
def coefShift (i w : Nat) : Nat := w * ((65535 - i) &&& (8 / w - 1))
def coefMask (w : Nat) : Nat := (1 <<< w) - 1

def coef (bs : Bytes) (i w : Nat) : P Nat := do
  let b ← P.idx "util/coef.rs:coef byte_string[index]" bs (coefIndex i w)
  pure ((b.toNat >>> coefShift i w) &&& coefMask w)

/-- `LmotsParameter::checksum`: `u16` accumulator (overflow-checked), then `<< ls` (bits shifted out of 16 are lost) -/
def checksumSum (n : Nat) (prm : LmotsParam) (bs : Bytes) : P Nat := do
  let max := (n * 8) / prm.w
  let maxWord := coefMask prm.w
  (List.range max).foldlM (fun sum i => do
    let c ← coef bs i prm.w
    let s := sum + (maxWord - c)
    if s ≥ 65536 then P.panic "lm_ots/parameters.rs:checksum u16 overflow" else pure s) 0

def checksum (n : Nat) (prm : LmotsParam) (bs : Bytes) : P Nat := do
  let s ← checksumSum n prm bs
  pure ((s <<< prm.ls) % 65536)

/-- `LmotsParameter::append_checksum_to` (ArrayVec of capacity MAX_HASH_SIZE + 2) -/
def append_checksum_to (n : Nat) (prm : LmotsParam) (bs : Bytes) : P Bytes := do
  let c ← checksum n prm bs
  let r ← P.extendCap "lm_ots/parameters.rs:append_checksum_to" (MAX_HASH_SIZE + 2) [] bs
  P.extendCap "lm_ots/parameters.rs:append_checksum_to" (MAX_HASH_SIZE + 2) r (Bytes.u16be c)

/-- one step of `HashChain::do_actual_hash_chain`: `H(I ‖ q ‖ u16 i ‖ u8 j ‖ prev)` -/
def chainStep (H : HashFn) (I qb : Bytes) (i j : Nat) (x : Bytes) : Bytes :=
  H.h (I ++ qb ++ Bytes.u16be i ++ [UInt8.ofNat j] ++ x)

/-- `do_hash_chain(hc_data, i, x, from, to)`: `cnt = to - from` steps starting at `j = from` -/
def chainFrom (H : HashFn) (I qb : Bytes) (i : Nat) : (cnt : Nat) → (j : Nat) → Bytes → Bytes
  | 0, _, x => x
  | cnt+1, j, x => chainFrom H I qb i cnt (j+1) (chainStep H I qb i j x)

def chain (H : HashFn) (I qb : Bytes) (i : Nat) (x : Bytes) (frm to : Nat) : Bytes :=
  chainFrom H I qb i (to - frm) frm x

/-- `lm_ots::keygen::generate_private_key`: `x[i] = H(I ‖ q ‖ u16 i ‖ 0xff ‖ SEED)` -/
def lmotsPrivateKey (H : HashFn) (I qb seed : Bytes) (prm : LmotsParam) : List Bytes :=
  (List.range prm.p).map fun i => H.h (I ++ qb ++ Bytes.u16be i ++ [0xff] ++ seed)

/-- `lm_ots::keygen::generate_public_key` -/
def lmotsPublicKey (H : HashFn) (I qb : Bytes) (prm : LmotsParam) (x : List Bytes) : Bytes :=
  let ends := (List.range prm.p).map fun i => chain H I qb i (x.getD i []) 0 (2 ^ prm.w - 1)
  H.h (I ++ qb ++ D_PBLC ++ ends.flatten)

/-- digits `coef(Q ‖ cksm, i, w)` for `i < p` -/
def digits (n : Nat) (prm : LmotsParam) (Q : Bytes) : P (List Nat) := do
  let qc ← append_checksum_to n prm Q
  (List.range prm.p).mapM fun i => coef qc i prm.w

/-- `LmotsSignature::sign`, serialised by `to_binary_representation`: `u32 type ‖ C ‖ y[0] ‖ … ‖ y[p-1]` -/
def lmotsSign (H : HashFn) (I qb seed : Bytes) (prm : LmotsParam) (C msg : Bytes) : P Bytes := do
  let Q := H.h (I ++ qb ++ D_MESG ++ C ++ msg)
  let ds ← digits H.n prm Q
  let x := lmotsPrivateKey H I qb seed prm
  let ys := (List.range prm.p).map fun i => chain H I qb i (x.getD i []) 0 (ds.getD i 0)
  P.require "lm_ots/signing.rs:to_binary_representation assert_eq randomizer length" (C.length == H.n)
  pure (Bytes.u32be prm.typeId ++ C ++ ys.flatten)

/-- parsed LM-OTS signature (`InMemoryLmotsSignature`) -/
structure InMemLmotsSig where
  randomizer : Bytes
  data : Bytes
  param : LmotsParam
deriving Repr

/-- `InMemoryLmotsSignature::new` -/
def InMemLmotsSig.parse (n : Nat) (data : Bytes) : Option InMemLmotsSig := do
  let t ← readAt data 4 0
  let prm ← Params.lmotsGetFromType n t.toNat
  let r ← readAt data n 4
  let d ← readAt data (n * prm.p) (4 + n)
  pure ⟨r, d, prm⟩

/-- `lm_ots::verify::generate_public_key_candidate` -/
def lmotsCandidate (H : HashFn) (sig : InMemLmotsSig) (I : Bytes) (q : Nat) (msg : Bytes) : P Bytes := do
  let qb := Bytes.u32be q
  let Q := H.h (I ++ qb ++ D_MESG ++ sig.randomizer ++ msg)
  let qc ← append_checksum_to H.n sig.param Q
  let maxw := 2 ^ sig.param.w - 1
  let cap := (Params.chains sig.param.w MAX_HASH_SIZE).getD 0
  let arr ← (List.range sig.param.p).foldlM (fun (arr : List Bytes) i => do
    let a ← coef qc i sig.param.w
    let y ← P.slice "lm_ots/signing.rs:get_signature_data" sig.data (H.n * i) H.n
    P.pushCap "lm_ots/verify.rs:HashChainArray::push" cap arr (chain H I qb i y a maxw)) []
  pure (H.h (I ++ qb ++ D_PBLC ++ arr.flatten))

end Impl

/-
Auxiliary data (`hss/aux.rs`): level word, cached tree levels, keyed MAC. The Rust code works on
`&mut` sub-slices of the caller's buffer; here the expanded view is a value that is re-assembled
into the buffer (`ExpAux.bytes`) when the operation ends.
-/
import HbsLms.Impl.Params

open Generated

namespace Impl

structure ExpAux where
  head : Bytes                    -- the 4 bytes of the level word as they stand in the buffer
  level : Nat                     -- `MutableExpandedAuxData::level`
  layers : List (Option Bytes)    -- index = tree level, 0 ..= MAX_TREE_HEIGHT
  hmac : Bytes
deriving Repr

/-- the caller-visible buffer contents behind an expanded view -/
def ExpAux.bytes (e : ExpAux) : Bytes :=
  e.head ++ (e.layers.map fun l => l.getD []).flatten ++ e.hmac

def log2 (x : Nat) : Nat := Nat.log2 x

/-- `hss_optimal_aux_level(max_length, lms_parameter, actual_len)` → (aux_level, actual_len) -/
def hss_optimal_aux_level (n h0 maxLength : Nat) : Nat × Nat :=
  if maxLength < AUX_DATA_HASHES + n then (0, 1) else
  let start := maxLength - (AUX_DATA_HASHES + n)
  -- levels h0, h0-2, … ≥ 1
  let levels := (List.range ((h0 + 1) / MIN_SUBTREE)).map fun k => h0 - MIN_SUBTREE * k
  let (rem, lvl) := levels.foldl (fun (acc : Nat × Nat) level =>
      let len := n <<< level
      if acc.1 ≥ len then (acc.1 - len, acc.2 ||| 0x80000000 ||| (1 <<< level)) else acc) (start, 0)
  (lvl, maxLength - rem)

/-- `hss_get_aux_data_len` -/
def hss_get_aux_data_len (n h0 maxLength : Nat) : Nat :=
  let (lvl, len) := hss_optimal_aux_level n h0 maxLength
  if lvl == 0 then 1 else len

/-- `hss_store_aux_marker` -/
def hss_store_aux_marker (aux : Bytes) (level : Nat) : Bytes :=
  if level == 0 then Bytes.patch aux AUX_DATA_MARKER [UInt8.ofNat NO_AUX_DATA]
  else Bytes.patch aux 0 (Bytes.u32be level)

/-- `hss_is_aux_data_used` -/
def hss_is_aux_data_used (aux : Bytes) : Bool :=
  match aux[AUX_DATA_MARKER]? with
  | some m => m.toNat != NO_AUX_DATA
  | none => false

/-- `compute_seed_derive` -/
def auxSeedDerive (H : HashFn) (seed : Bytes) : Bytes :=
  let prefix_ := Bytes.patch (Bytes.zeros DAUX_PREFIX_LEN) DAUX_D (Bytes.u16be D_DAUX)
  H.h (prefix_ ++ seed)

/-- `compute_hmac` (block size 64 for all six hashes) -/
def auxHmac (H : HashFn) (key data : Bytes) : Bytes :=
  let padLen := MAX_HASH_BLOCK_SIZE - H.n
  let inner := H.h (Bytes.xorByte (UInt8.ofNat IPAD) key ++ List.replicate padLen (UInt8.ofNat IPAD) ++ data)
  H.h (Bytes.xorByte (UInt8.ofNat OPAD) key ++ List.replicate padLen (UInt8.ofNat OPAD) ++ inner)

/-- `hss_expand_aux_data(aux, seed)` -/
def hss_expand_aux_data (H : HashFn) (cfg : Config) (aux : Bytes) (seed : Option Bytes) : Option ExpAux := do
  if !hss_is_aux_data_used aux then none
  let lw ← readAt aux 4 0
  let level := lw.toNat
  let sizes := (List.range (cfg.maxTreeHeight + 1)).map fun i =>
    if (level >>> i) &&& 1 == 0 then 0 else H.n <<< i
  let total := 4 + sizes.foldl (· + ·) 0
  match seed with
  | some s =>
    if total > aux.length then none
    let data := aux.take total
    let mac := aux.drop total
    if auxHmac H (auxSeedDerive H s) data != mac then none
  | none => pure ()
  let (layers, rest) := sizes.foldl (fun (acc : List (Option Bytes) × Bytes) sz =>
      if sz == 0 then (acc.1 ++ [none], acc.2) else (acc.1 ++ [some (acc.2.take sz)], acc.2.drop sz))
      ([], aux.drop 4)
  pure ⟨lw, level, layers, rest⟩

/-- `hss_save_aux_data` -/
def hss_save_aux_data (n : Nat) (e : ExpAux) (index : Nat) (v : Bytes) : ExpAux :=
  let level := log2 index
  match e.layers.getD level none with
  | none => e
  | some layer =>
    let start := (index - 2 ^ level) * n
    { e with layers := e.layers.set level (some (Bytes.patch layer start v)) }

/-- `hss_extract_aux_data` -/
def hss_extract_aux_data (n : Nat) (e : ExpAux) (index : Nat) : Option Bytes :=
  let level := log2 index
  match e.layers.getD level none with
  | none => none
  | some layer =>
    let v := Bytes.slice layer ((index - 2 ^ level) * n) n
    if Bytes.allZero v then none else some v

/-- `hss_finalize_aux_data`: MAC over `level word ‖ layers` (which levels are included is read off the source) -/
def hss_finalize_aux_data (H : HashFn) (cfg : Config) (e : ExpAux) (seed : Bytes) : ExpAux :=
  let upto := if FINALIZE_INCLUSIVE == 1 then cfg.maxTreeHeight + 1 else cfg.maxTreeHeight
  let body := ((e.layers.take upto).map fun l => l.getD []).flatten
  { e with hmac := auxHmac H (auxSeedDerive H seed) (Bytes.u32be e.level ++ body) }

end Impl

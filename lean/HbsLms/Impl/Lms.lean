/-
LMS: `lms/helper.rs` (tree nodes with the aux cache), `lms/definitions.rs`, `lms/signing.rs`, `lms/verify.rs`.
-/
import HbsLms.Impl.Lmots
import HbsLms.Impl.AuxData

open Generated

namespace Impl

/-- `LmsPrivateKey` without its leaf counter -/
structure LmsKey where
  I : Bytes
  seed : Bytes
  ots : LmotsParam
  lms : LmsParam
deriving Repr

/-- leaf `T[2^h + q] = H(I ‖ u32(r) ‖ D_LEAF ‖ OTS_PUB[q])` -/
def leafNode (H : HashFn) (k : LmsKey) (r : Nat) : Bytes :=
  let qb := Bytes.u32be (r - 2 ^ k.lms.h)
  let x := lmotsPrivateKey H k.I qb k.seed k.ots
  H.h (k.I ++ Bytes.u32be r ++ D_LEAF ++ lmotsPublicKey H k.I qb k.ots x)

/-- `lms::helper::get_tree_element(index, private_key, aux)`; `fuel` = remaining depth below `r` -/
def getTreeElement (H : HashFn) (k : LmsKey) : (fuel : Nat) → (r : Nat) → Option ExpAux → Bytes × Option ExpAux
  | fuel, r, aux =>
    match aux.bind (fun e => hss_extract_aux_data H.n e r) with
    | some v => (v, aux)
    | none =>
      let (res, aux') : Bytes × Option ExpAux :=
        if r ≥ 2 ^ k.lms.h then (leafNode H k r, aux)
        else match fuel with
          | 0 => ([], aux)   -- not reached: callers pass fuel = h - level(r)
          | f+1 =>
            let (l, a1) := getTreeElement H k f (2 * r) aux
            let (rr, a2) := getTreeElement H k f (2 * r + 1) a1
            (H.h (k.I ++ Bytes.u32be r ++ D_INTR ++ l ++ rr), a2)
      (res, aux'.map fun e => hss_save_aux_data H.n e r res)

/-- `T[r]` computed through the cache -/
def treeNode (H : HashFn) (k : LmsKey) (r : Nat) (aux : Option ExpAux) : Bytes × Option ExpAux :=
  getTreeElement H k (k.lms.h - log2 r) r aux

/-- `LmsPublicKey::to_binary_representation` -/
def lmsPublicKeyBytes (k : LmsKey) (root : Bytes) : Bytes :=
  Bytes.u32be k.lms.typeId ++ Bytes.u32be k.ots.typeId ++ k.I ++ root

/-- `LmsSignature::sign` + `to_binary_representation`: `u32 q ‖ ots sig ‖ u32 lms type ‖ path`.
`none` = `Err(())` (leaf counter beyond the tree) -/
def lmsSign (H : HashFn) (cfg : Config) (k : LmsKey) (q : Nat) (msg C : Bytes) (aux : Option ExpAux) :
    P (Option (Bytes × Option ExpAux)) := do
  if q ≥ 2 ^ k.lms.h then return none
  P.require "lm_ots/keygen.rs:generate_private_key key.push" (k.ots.p ≤ cfg.maxChains)
  let qb := Bytes.u32be q
  let ots ← lmotsSign H k.I qb k.seed k.ots C msg
  P.require "lms/signing.rs:build_authentication_path push" (k.lms.h ≤ cfg.maxTreeHeight)
  let leaf := 2 ^ k.lms.h + q
  let (path, aux') := (List.range k.lms.h).foldl (fun (acc : List Bytes × Option ExpAux) i =>
      let (v, a) := treeNode H k ((leaf / 2 ^ i) ^^^ 1) acc.2
      (acc.1 ++ [v], a)) ([], aux)
  let sig := qb ++ ots ++ Bytes.u32be k.lms.typeId ++ path.flatten
  P.require "lms/signing.rs:to_binary_representation capacity" (sig.length ≤ cfg.maxLmsSigLen)
  pure (some (sig, aux'))

/-- parsed LMS signature (`InMemoryLmsSignature`) -/
structure InMemLmsSig where
  q : Nat
  ots : InMemLmotsSig
  path : Bytes
  lms : LmsParam
deriving Repr

/-- `InMemoryLmsSignature::new` -/
def InMemLmsSig.parse (n : Nat) (data : Bytes) : Option InMemLmsSig := do
  let qb ← readAt data 4 0
  let tb ← readAt data 4 4
  let op ← Params.lmotsGetFromType n tb.toNat
  let otsLen := 4 + n * (1 + op.p)
  let otsBytes ← readAt data otsLen 4
  let ots ← InMemLmotsSig.parse n otsBytes
  let lt ← readAt data 4 (4 + otsLen)
  let lp ← Params.lmsGetFromType lt.toNat
  let path ← readAt data (n * lp.h) (4 + otsLen + 4)
  if qb.toNat ≥ 2 ^ lp.h then none
  pure ⟨qb.toNat, ots, path, lp⟩

/-- number of bytes `InMemLmsSig.parse` looked at (`lms_signature_length(n, p, h)`) -/
def InMemLmsSig.len (n : Nat) (s : InMemLmsSig) : Nat :=
  lms_signature_length n s.ots.param.p s.lms.h

/-- parsed LMS public key (`InMemoryLmsPublicKey`) -/
structure InMemLmsPk where
  key : Bytes
  I : Bytes
  ots : LmotsParam
  lms : LmsParam
  complete : Bytes
deriving Repr

/-- `InMemoryLmsPublicKey::new` -/
def InMemLmsPk.parse (n : Nat) (data : Bytes) : Option InMemLmsPk := do
  let lt ← readAt data 4 0
  let lp ← Params.lmsGetFromType lt.toNat
  let ot ← readAt data 4 4
  let op ← Params.lmotsGetFromType n ot.toNat
  let I ← readAt data 16 8
  let key ← readAt data n 24
  pure ⟨key, I, op, lp, data.take (24 + n)⟩

/-- the root climb of `lms::verify::generate_public_key_candidate` (`while node_num > 1`) -/
def climb (H : HashFn) (I path : Bytes) : (fuel : Nat) → (nodeNum i : Nat) → (tmp : Bytes) → P Bytes
  | 0, nodeNum, _, tmp =>
    if nodeNum > 1 then P.panic "model: climb fuel exhausted" else pure tmp
  | fuel+1, nodeNum, i, tmp =>
    if nodeNum > 1 then do
      let sib ← P.slice "lms/signing.rs:get_path" path (H.n * i) H.n
      let parent := nodeNum / 2
      let pre := I ++ Bytes.u32be parent ++ D_INTR
      let t := if nodeNum % 2 == 1 then H.h (pre ++ sib ++ tmp) else H.h (pre ++ tmp ++ sib)
      climb H I path fuel parent (i + 1) t
    else pure tmp

/-- `lms::verify::generate_public_key_candidate`; `none` = `Err(())` -/
def lmsCandidate (H : HashFn) (sig : InMemLmsSig) (pk : InMemLmsPk) (msg : Bytes) : P (Option Bytes) :=
  let leafs := 2 ^ sig.lms.h
  if sig.q ≥ leafs then pure none else do
    let kc ← lmotsCandidate H sig.ots pk.I sig.q msg
    let nodeNum := leafs + sig.q
    let tmp := H.h (pk.I ++ Bytes.u32be nodeNum ++ D_LEAF ++ kc)
    let r ← climb H pk.I sig.path (sig.lms.h + 1) nodeNum 0 tmp
    pure (some r)

/-- `lms::verify::verify` -/
def lmsVerify (H : HashFn) (sig : InMemLmsSig) (pk : InMemLmsPk) (msg : Bytes) : P Bool :=
  if sig.ots.param != pk.ots || sig.lms != pk.lms then pure false else do
    match ← lmsCandidate H sig pk msg with
    | none => pure false
    | some c => pure (c == pk.key)

end Impl

/-
`fast_verify` feature: `hss_sign_mut` (hss/mod.rs), `optimize_message_hash` / `thread_optimize_message_hash`
(lm_ots/signing.rs), `fast_verify_eval` (lm_ots/parameters.rs).

The worker threads, their RNG and the channel are *inputs* of the model: the list of
(score, randomizer) pairs in arrival order. Theorems quantify over all such lists.
-/
import HbsLms.Impl.Hss

namespace Impl

/-- the receiving loop of `optimize_message_hash`: keep a result only if its score is strictly greater -/
def selectTrailer (results : List (Nat × Bytes)) (init : Bytes) : Bytes :=
  (results.foldl (fun (acc : Nat × Bytes) r => if r.1 > acc.1 then (r.1, r.2) else acc) (0, init)).2

/-- `LmotsParameter::fast_verify_eval`: total number of chain iterations (message digits + checksum digits);
the checksum bytes are indexed relative to the hash output size -/
def fastVerifyEval (n : Nat) (prm : LmotsParam) (bs : Bytes) : P Nat := do
  let max := (n * 8) / prm.w
  let sum := max * coefMask prm.w
  let tot ← (List.range max).foldlM (fun acc i => do
    let b ← P.idx "lm_ots/parameters.rs:fast_verify_eval byte_string[index]" bs (coefIndex i prm.w)
    pure (acc + ((b.toNat >>> coefShift i prm.w) &&& coefMask prm.w))) 0
  P.require "lm_ots/parameters.rs:fast_verify_eval sum - total" (tot ≤ sum)
  let ck := ((sum - tot) <<< prm.ls) % 65536
  let ckb := Bytes.u16be ck
  (List.range (prm.p - max)).foldlM (fun acc k => do
    let i := max + k
    P.require "lm_ots/parameters.rs:fast_verify_eval index - OUTPUT_SIZE" (coefIndex i prm.w ≥ n)
    let b ← P.idx "lm_ots/parameters.rs:fast_verify_eval checksum[index - n]" ckb (coefIndex i prm.w - n)
    pure (acc + ((b.toNat >>> coefShift i prm.w) &&& coefMask prm.w))) tot

/-- `hss_sign_mut(message_mut, …)` given the trailer the optimisation loop ended with.
Returns the outcome and the message buffer afterwards. -/
def hssSignMut (H : HashFn) (cfg : Config) (msg trailer sk : Bytes) (cb : Bytes → Bool) : P (SignOutcome × Bytes) := do
  if msg.length ≤ H.n then return (⟨none, [], none, []⟩, msg)
  let pre := msg.take (msg.length - H.n)
  if !Bytes.allZero (msg.drop (msg.length - H.n)) then return (⟨none, [], none, []⟩, msg)
  -- preconditions of signing are checked before the message is touched
  let some k := RefKey.parse H.n sk | return (⟨none, [], none, []⟩, msg)
  let some _ := paramsOfBytes cfg H.n k.params | return (⟨none, [], none, []⟩, msg)
  P.require "lm_ots/signing.rs:optimize_message_hash copy_from_slice" (trailer.length == H.n)
  let msg' := pre ++ trailer
  let o ← hssSign H cfg msg' sk cb none
  pure (o, msg')

end Impl

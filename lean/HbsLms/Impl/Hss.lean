/-
HSS: `hss/reference_impl_private_key.rs` (key blob, counter, seed derivation), `hss/seed_derive.rs`,
`hss/definitions.rs` (private key expansion, public key, lifetime), `hss/signing.rs`, `hss/verify.rs`,
`hss/mod.rs` (keygen / sign / verify entry points and the update-callback protocol).
-/
import HbsLms.Impl.Lms

open Generated

namespace Impl

/-- `ReferenceImplPrivateKey` -/
structure RefKey where
  counter : Nat
  params : Bytes        -- 8 compressed parameter bytes
  seed : Bytes
deriving Repr, DecidableEq

/-- `to_binary_representation` -/
def RefKey.bytes (k : RefKey) : Bytes := Bytes.u64be k.counter ++ k.params ++ k.seed

/-- `from_binary_representation` (`none` = `Err(())`) -/
def RefKey.parse (n : Nat) (data : Bytes) : Option RefKey := do
  if data.length != REF_IMPL_MAX_PRIVATE_KEY_SIZE - MAX_SEED_LEN + n then none
  let c ← readAt data HSS_COMPRESSED_USED_LEAFS_SIZE 0
  let ps ← readAt data REF_IMPL_MAX_ALLOWED_HSS_LEVELS HSS_COMPRESSED_USED_LEAFS_SIZE
  let seed ← readAt data n (HSS_COMPRESSED_USED_LEAFS_SIZE + REF_IMPL_MAX_ALLOWED_HSS_LEVELS)
  pure ⟨c.toNat, ps, seed⟩

/-- the wiped key (`wipe`) -/
def RefKey.wiped (n : Nat) : RefKey :=
  ⟨0, List.replicate REF_IMPL_MAX_ALLOWED_HSS_LEVELS (UInt8.ofNat PARAM_SET_END), Bytes.zeros n⟩

/-- length of the HSS signature for a parameter list: `u32 ‖ (LMS sig ‖ LMS pk)* ‖ LMS sig` -/
def hssSigLen (n : Nat) (ps : List HssParam) : Nat :=
  4 + (ps.map fun p => lms_signature_length n p.ots.p p.lms.h).foldl (· + ·) 0
    + (ps.length - 1) * lms_public_key_length n

/-- `CompressedParameterSet::is_signature_length_supported` (tinyvec's `ArrayVec` has a `u16` length) -/
def sigLenSupported (n : Nat) (ps : List HssParam) : Bool := hssSigLen n ps ≤ 65535

/-- `CompressedParameterSet::to::<H>()` (`none` = `Err(())`) -/
def paramsOfBytes (cfg : Config) (n : Nat) (bs : Bytes) : Option (List HssParam) :=
  let rec go (level : Nat) (rest : Bytes) (acc : List HssParam) : Option (List HssParam) :=
    match rest with
    | [] => if acc.isEmpty || !sigLenSupported n acc then none else some acc
    | b :: rest' =>
      if b.toNat == PARAM_SET_END then (if acc.isEmpty || !sigLenSupported n acc then none else some acc) else
      match Params.lmsFromU32 (b.toNat >>> 4), Params.lmotsFromU32 n (b.toNat &&& 0x0f) with
      | some lms, some ots =>
        let p : HssParam := ⟨ots, lms⟩
        if cfg.withinLimits level p then go (level + 1) rest' (acc ++ [p]) else none
      | _, _ => none
  go 0 bs []

/-- `CompressedParameterSet::from(parameters)` (`none` = `Err(())`) -/
def bytesOfParams (cfg : Config) (n : Nat) (ps : List HssParam) : P (Option Bytes) := do
  if ps.length > cfg.maxLevels then return none
  if !(List.range ps.length).all (fun i => match ps[i]? with | some p => cfg.withinLimits i p | none => false) then
    return none
  let bs ← ps.mapM fun p => do
    let v := ((p.lms.typeId % 256) <<< 4) % 256 + p.ots.typeId % 256
    P.require "hss/reference_impl_private_key.rs:CompressedParameterSet::from u8 overflow" (v < 256)
    pure (UInt8.ofNat v)
  if !sigLenSupported n ps then return none
  pure (some (bs ++ List.replicate (REF_IMPL_MAX_ALLOWED_HSS_LEVELS - bs.length) (UInt8.ofNat PARAM_SET_END)))

/-- `CompressedUsedLeafsIndexes::to(parameters)`: mask-then-shift from the bottom level up -/
def leavesOfCounter (hs : List Nat) (c : Nat) : List Nat :=
  (hs.foldr (fun h (acc : List Nat × Nat) => ((acc.2 &&& (2 ^ h - 1)) :: acc.1, acc.2 >>> h)) ([], c)).1

/-- `CompressedUsedLeafsIndexes::increment(tree_heights)`: `none` = exhausted (`Err`, key is wiped) -/
def incrementCounter (hs : List Nat) (c : Nat) : Option Nat :=
  let total := hs.foldl (· + ·) 0
  let last := if total ≥ 64 then 2 ^ 64 - 1 else 2 ^ total - 1
  if c ≥ last then none else some (c + 1)

/-- `ReferenceImplPrivateKey::increment` -/
def RefKey.increment (k : RefKey) (n : Nat) (hs : List Nat) : RefKey :=
  match incrementCounter hs k.counter with
  | some c => { k with counter := c }
  | none => RefKey.wiped n

/-- `generate_root_seed_and_lms_tree_identifier` → (seed, I) -/
def rootSeedAndId (H : HashFn) (seed : Bytes) : Bytes × Bytes :=
  let pre0 := Bytes.patch (Bytes.patch (Bytes.zeros TOPSEED_LEN) TOPSEED_D (Bytes.u16be D_TOPSEED)) TOPSEED_SEED seed
  let h1 := H.h pre0
  let pre1 := Bytes.patch pre0 TOPSEED_SEED h1
  let preA := Bytes.patch pre1 TOPSEED_WHICH [0x01]
  let preB := Bytes.patch pre1 TOPSEED_WHICH [0x02]
  (H.h preA, (H.h preB).take ILEN)

/-- `SeedDerive::seed_derive`: hashes the whole `PRNG_MAX_LEN` buffer (zero padded for short seeds) -/
def seedDerive (H : HashFn) (seed I : Bytes) (q j : Nat) : Bytes :=
  let buf := Bytes.zeros (prng_len MAX_HASH_SIZE)
  let buf := Bytes.patch buf PRNG_I I
  let buf := Bytes.patch buf PRNG_Q (Bytes.u32be q)
  let buf := Bytes.patch buf PRNG_J (Bytes.u16be j)
  let buf := Bytes.patch buf PRNG_FF [0xff]
  let buf := Bytes.patch buf PRNG_SEED seed
  H.h buf

/-- `generate_child_seed_and_lms_tree_identifier` -/
def childSeedAndId (H : HashFn) (seed I : Bytes) (q : Nat) : Bytes × Bytes :=
  (seedDerive H seed I q SEED_CHILD_SEED, (seedDerive H seed I q (SEED_CHILD_SEED + 1)).take ILEN)

/-- `generate_signature_randomizer` -/
def signatureRandomizer (H : HashFn) (seed I : Bytes) (q : Nat) : Bytes :=
  seedDerive H seed I q SEED_SIGNATURE_RANDOMIZER_SEED

/-- `HssPrivateKey::get_expanded_aux_data`: returns the expanded view and the (possibly shrunk and
re-initialised) visible buffer plus the bytes cut off behind it -/
def getExpandedAuxData (H : HashFn) (cfg : Config) (aux : Option Bytes) (seed : Bytes) (h0 : Nat) :
    Option ExpAux × Option Bytes × Bytes :=
  match aux with
  | none => (none, none, [])
  | some buf =>
    if buf.isEmpty then (none, some buf, []) else
    if hss_is_aux_data_used buf then (hss_expand_aux_data H cfg buf (some seed), some buf, []) else
    let auxLen := hss_get_aux_data_len H.n h0 buf.length
    let rest := buf.drop auxLen
    let fresh := Bytes.zeros (min auxLen buf.length)
    let level := (hss_optimal_aux_level H.n h0 auxLen).1
    let marked := hss_store_aux_marker fresh level
    (hss_expand_aux_data H cfg marked none, some marked, rest)

/-- visible buffer after the operation -/
def auxAfter (e : Option ExpAux) (buf : Option Bytes) : Option Bytes :=
  match e, buf with
  | some e, some _ => some e.bytes
  | _, b => b

/-- one level of the expanded private key -/
structure Level where
  key : LmsKey
  q : Nat
deriving Repr

/-- what `HssPrivateKey::from` computes: per level the tree key and leaf, for levels ≥ 1 the tree's public
key and the parent's signature over it -/
structure Expanded where
  levels : List Level
  pubs : List Bytes          -- serialised LMS public keys of levels 1..L-1
  sigs : List Bytes          -- serialised LMS signatures by levels 0..L-2
deriving Repr

/-- `HssPrivateKey::from(private_key, aux)`; `none` = `Err(())` -/
def expandPrivateKey (H : HashFn) (cfg : Config) (k : RefKey) (aux : Option ExpAux) :
    P (Option (Expanded × Option ExpAux)) := do
  let some ps := paramsOfBytes cfg H.n k.params | return none
  let leaves := leavesOfCounter (ps.map (·.lms.h)) k.counter
  let (seed0, I0) := rootSeedAndId H k.seed
  let some p0 := ps.head? | return none
  let top : Level := ⟨⟨I0, seed0, p0.ots, p0.lms⟩, leaves.getD 0 0⟩
  let rec go (i : Nat) (rest : List HssParam) (parent : Level) (acc : Expanded) (aux : Option ExpAux)
      (auxLive : Bool) : P (Option (Expanded × Option ExpAux)) :=
    match rest with
    | [] => pure (some (acc, aux))
    | p :: rest' => do
      let (cs, cI) := childSeedAndId H parent.key.seed parent.key.I parent.q
      let C := signatureRandomizer H cs cI parent.q
      let child : Level := ⟨⟨cI, cs, p.ots, p.lms⟩, leaves.getD i 0⟩
      let (root, _) := treeNode H child.key 1 none
      let pkb := lmsPublicKeyBytes child.key root
      P.require "lms/definitions.rs:LmsPublicKey::to_binary_representation capacity" (pkb.length ≤ Config.maxLmsPkLen)
      let r ← lmsSign H cfg parent.key parent.q pkb C (if auxLive then aux else none)
      match r with
      | none => pure none
      | some (sig, aux') =>
        go (i + 1) rest' child
          ⟨acc.levels ++ [child], acc.pubs ++ [pkb], acc.sigs ++ [sig]⟩
          (if auxLive then aux' else aux) false
  go 1 ps.tail top ⟨[top], [], []⟩ aux true

/-- `HssPrivateKey::get_lifetime` on the expanded key (upper levels have consumed their current leaf);
saturating arithmetic -/
def lifetimeOf (hs qs : List Nat) : Nat :=
  let L := hs.length
  let sat (x : Nat) := min x (2 ^ 64 - 1)
  ((List.range L).reverse.foldl (fun (acc : Nat × List Nat) i =>
      let total := 2 ^ hs.getD i 0
      let used := if i + 1 < L then qs.getD i 0 + 1 else qs.getD i 0
      let free := acc.2.foldl (fun f t => sat (f * t)) (total - used)
      (sat (acc.1 + free), acc.2 ++ [total])) (0, [])).1

/-- `SigningKey::get_lifetime` (`none` = `Err`) -/
def getLifetime (H : HashFn) (cfg : Config) (sk : Bytes) : P (Option Nat) := do
  if sk.length > Config.maxPrivKeyLen then return none        -- SigningKey::from_bytes
  let some k := RefKey.parse H.n sk | return none
  let some (e, _) ← expandPrivateKey H cfg k none | return none
  let hs := e.levels.map (·.key.lms.h)
  pure (some (lifetimeOf hs (e.levels.map (·.q))))

/-- result of `hss_sign_core`: what came back, the arguments the update callback was invoked with, and
the visible aux buffer afterwards -/
structure SignOutcome where
  result : Option Bytes        -- `Ok(signature)` / `Err`
  trace : List Bytes           -- callback invocations (argument bytes)
  aux : Option Bytes
  auxRest : Bytes
deriving Repr

/-- everything `hss_sign_core` does between parsing the key and invoking the update callback -/
inductive Prepared where
  /-- a fallible step failed (`?` returned `Err`): visible aux buffer and the bytes cut off behind it -/
  | failed (aux : Option Bytes) (auxRest : Bytes)
  /-- signature assembled: per-level heights (for the counter increment), signature bytes, aux -/
  | ready (heights : List Nat) (sig : Bytes) (aux : Option Bytes) (auxRest : Bytes)
deriving Repr

/-- `hss_sign_core` from after `from_binary_representation` up to (excluding) `private_key_update_function(...)` -/
def signPrepare (H : HashFn) (cfg : Config) (msg : Bytes) (k : RefKey) (aux : Option Bytes) : P Prepared := do
  let some ps := paramsOfBytes cfg H.n k.params | return .failed aux []
  let some p0 := ps.head? | return .failed aux []
  let (e0, buf, rest) := getExpandedAuxData H cfg aux k.seed p0.lms.h
  let some (ex, e1) ← expandPrivateKey H cfg k e0 | return .failed (auxAfter e0 buf) rest
  let L := ex.levels.length
  let some bottom := ex.levels.getLast? | return .failed (auxAfter e1 buf) rest
  let C := signatureRandomizer H bottom.key.seed bottom.key.I bottom.q
  -- for L > 1 the aux view was dropped inside HssPrivateKey::from
  let r ← lmsSign H cfg bottom.key bottom.q msg C (if L == 1 then e1 else none)
  let some (bsig, e2') := r | return .failed (auxAfter e1 buf) rest
  let e2 := if L == 1 then e2' else e1
  let spks := (List.range (L - 1)).map fun i => ex.sigs.getD i [] ++ ex.pubs.getD i []
  P.require "hss/signing.rs:HssSignedPublicKey::to_binary_representation capacity"
    (spks.all fun s => s.length ≤ cfg.maxSignedPkLen)
  let sigBytes := Bytes.u32be (L - 1) ++ spks.flatten ++ bsig
  P.require "hss/signing.rs:HssSignature::to_binary_representation capacity" (sigBytes.length ≤ cfg.maxHssSigLen)
  let hs := ex.levels.map (·.key.lms.h)
  P.require "hss/reference_impl_private_key.rs:to_binary_representation capacity"
    ((k.increment H.n hs).bytes.length ≤ Config.maxPrivKeyLen)
  pure (.ready hs sigBytes (auxAfter e2 buf) rest)

/-- the tail of `hss_sign_core`: advance the key (`rfc_private_key.increment`), hand the successor to the callback,
then (only if it accepted) wrap the signature bytes (`Signature::from_bytes_verbose`, a capacity-checked copy) -/
def signCommit (n : Nat) (cfg : Config) (cb : Bytes → Bool) (k : RefKey) : Prepared → SignOutcome
  | .failed a r => ⟨none, [], a, r⟩
  | .ready hs sig a r =>
    let newKey := (k.increment n hs).bytes
    if !cb newKey then ⟨none, [newKey], a, r⟩
    else if sig.length > 65535 || sig.length > cfg.maxHssSigLen then ⟨none, [newKey], a, r⟩
    else ⟨some sig, [newKey], a, r⟩

/-- `hss_sign_core` for the ordinary (non fast_verify) path. `cb` is the key-update callback. -/
def hssSign (H : HashFn) (cfg : Config) (msg sk : Bytes) (cb : Bytes → Bool) (aux : Option Bytes) : P SignOutcome :=
  match RefKey.parse H.n sk with
  | none => pure ⟨none, [], aux, []⟩
  | some k => do
    let p ← signPrepare H cfg msg k aux
    pure (signCommit H.n cfg cb k p)

/-- `SigningKey::try_sign_with_aux`: the closure overwrites the in-memory key -/
def trySign (H : HashFn) (cfg : Config) (msg sk : Bytes) (aux : Option Bytes) : P (Option (SignOutcome × Bytes)) := do
  if sk.length > Config.maxPrivKeyLen then return none         -- SigningKey::from_bytes fails
  let o ← hssSign H cfg msg sk (fun _ => true) aux
  match o.trace with
  | [k'] =>
    P.require "hss/mod.rs:try_sign_with_aux copy_from_slice" (k'.length == sk.length)
    pure (some (o, k'))
  | _ => pure (some (o, sk))

structure KeygenOutcome where
  result : Option (Bytes × Bytes)    -- (signing key, verifying key)
  aux : Option Bytes
  auxRest : Bytes
deriving Repr

/-- `hss_keygen(parameters, seed, aux)` -/
def hssKeygen (H : HashFn) (cfg : Config) (ps : List HssParam) (seed : Bytes) (aux : Option Bytes) : P KeygenOutcome := do
  let some pb ← bytesOfParams cfg H.n ps | return ⟨none, aux, []⟩
  let k : RefKey := ⟨0, pb, seed⟩
  -- HssPublicKey::from
  let some ps' := paramsOfBytes cfg H.n k.params | return ⟨none, aux, []⟩
  let some p0 := ps'.head? | return ⟨none, aux, []⟩
  let used := match aux with | some b => hss_is_aux_data_used b | none => false
  let (e0, buf, rest) := getExpandedAuxData H cfg aux k.seed p0.lms.h
  let (seed0, I0) := rootSeedAndId H k.seed
  let key0 : LmsKey := ⟨I0, seed0, p0.ots, p0.lms⟩
  let (root, e1) := treeNode H key0 1 e0
  let e2 := if used then e1 else e1.map fun e => hss_finalize_aux_data H cfg e k.seed
  let vk := Bytes.u32be ps'.length ++ lmsPublicKeyBytes key0 root
  let skb := k.bytes
  if skb.length > Config.maxPrivKeyLen then return ⟨none, auxAfter e2 buf, rest⟩
  if vk.length > Config.maxHssPkLen then return ⟨none, auxAfter e2 buf, rest⟩
  pure ⟨some (skb, vk), auxAfter e2 buf, rest⟩

/-- parsed HSS signature (`InMemoryHssSignature`) -/
structure InMemHssSig where
  level : Nat
  spks : List (InMemLmsSig × InMemLmsPk)
  sig : InMemLmsSig
deriving Repr

/-- `InMemoryHssSignedPublicKey::new` + `len` -/
def parseSignedPk (n : Nat) (data : Bytes) : Option (InMemLmsSig × InMemLmsPk × Nat) := do
  let sig ← InMemLmsSig.parse n data
  let sl := sig.len n
  let pk ← InMemLmsPk.parse n (data.drop sl)
  pure (sig, pk, sl + lms_public_key_length n)

/-- the `for _ in 0..level` loop of `InMemoryHssSignature::new` -/
def parseSignedPks (n : Nat) : (k : Nat) → (rest : Bytes) → (acc : List (InMemLmsSig × InMemLmsPk)) →
    Option (List (InMemLmsSig × InMemLmsPk) × Bytes)
  | 0, rest, acc => some (acc, rest)
  | k+1, rest, acc =>
    match parseSignedPk n rest with
    | none => none
    | some (s, p, l) => parseSignedPks n k (rest.drop l) (acc ++ [(s, p)])

/-- `InMemoryHssSignature::new` -/
def InMemHssSig.parse (cfg : Config) (n : Nat) (data : Bytes) : Option InMemHssSig :=
  match readAt data 4 0 with
  | none => none
  | some lb =>
    let level := lb.toNat
    if level > cfg.maxLevels - 1 then none else
    match parseSignedPks n level (data.drop 4) [] with
    | none => none
    | some (spks, rest) =>
      match InMemLmsSig.parse n rest with
      | none => none
      | some sig => if rest.length != sig.len n then none else some ⟨level, spks, sig⟩

/-- `InMemoryHssPublicKey::new` → (level, LMS public key) -/
def parseHssPk (n : Nat) (data : Bytes) : Option (Nat × InMemLmsPk) := do
  let lb ← readAt data 4 0
  let pk ← InMemLmsPk.parse n (data.drop 4)
  if data.length - 4 != pk.complete.length then none
  pure (lb.toNat, pk)

/-- the loop of `hss::verify::verify` over the signed public keys: the key that must verify the next level,
or `none` as soon as one link fails -/
def verifyChain (H : HashFn) : List (InMemLmsSig × InMemLmsPk) → InMemLmsPk → P (Option InMemLmsPk)
  | [], key => pure (some key)
  | (s, p) :: rest, key => do
    if ← lmsVerify H s key p.complete then verifyChain H rest p else pure none

/-- `hss::verify::verify` -/
def hssVerifyParsed (H : HashFn) (sig : InMemHssSig) (level : Nat) (pk : InMemLmsPk) (msg : Bytes) : P Bool :=
  if sig.level + 1 != level then pure false else do
    match ← verifyChain H sig.spks pk with
    | none => pure false
    | some key => lmsVerify H sig.sig key msg

/-- `hss_verify(message, signature, public_key)`: `true` = `Ok(())` -/
def hssVerify (H : HashFn) (cfg : Config) (msg sig pk : Bytes) : P Bool :=
  match InMemHssSig.parse cfg H.n sig with
  | none => pure false
  | some s =>
    match parseHssPk H.n pk with
    | none => pure false
    | some (level, k) => hssVerifyParsed H s level k msg

/-- the three verification entry points -/
inductive Entry | fn | viaSignature | viaVerifierSignature
deriving Repr, DecidableEq

def verifyEntry (e : Entry) (H : HashFn) (cfg : Config) (msg sig pk : Bytes) : P Bool :=
  match e with
  | .fn => hssVerify H cfg msg sig pk
  | .viaSignature =>
    -- Signature::from_bytes and VerifyingKey::from_bytes are capacity-checked copies
    if sig.length > 65535 || sig.length > cfg.maxHssSigLen || pk.length > Config.maxHssPkLen then pure false
    else hssVerify H cfg msg sig pk
  | .viaVerifierSignature =>
    if pk.length > Config.maxHssPkLen then pure false else hssVerify H cfg msg sig pk

end Impl

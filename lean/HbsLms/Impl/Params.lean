/-
Parameter tables of the library, built from the regenerated `Generated.*` data
(`lm_ots/parameters.rs`, `lms/parameters.rs`, `constants.rs::get_num_winternitz_chains`),
and the build-time configuration (`build.rs`, `constants.rs`).
-/
import HbsLms.Generated.Tables
import HbsLms.Generated.Consts
import HbsLms.Hash.HashFn
import HbsLms.Basic.Fault

structure LmotsParam where
  typeId : Nat
  w : Nat
  p : Nat
  ls : Nat
deriving Repr, DecidableEq, BEq

structure LmsParam where
  typeId : Nat
  h : Nat
deriving Repr, DecidableEq, BEq

/-- an HSS level: (LM-OTS parameter, LMS parameter) -/
structure HssParam where
  ots : LmotsParam
  lms : LmsParam
deriving Repr, DecidableEq, BEq

namespace Params

/-- `constants.rs::get_num_winternitz_chains(w, n)`; `none` where the Rust function panics -/
def chains (w n : Nat) : Option Nat := do
  let wi ← Generated.chainWIndex.lookup w
  let oi ← Generated.chainOIndex.lookup n
  Generated.hashChainCounts[wi * Generated.chainStride + oi]?

/-- `LmotsAlgorithm::construct_parameter::<H>()` for a variant name -/
def lmotsConstruct (n : Nat) (variant : String) : Option LmotsParam := do
  let row ← Generated.lmotsConstruct.lookup variant
  let (t, w, cw, ls) ← row
  let p ← chains cw n
  pure ⟨t, w, p, ls⟩

/-- `LmotsAlgorithm::get_from_type::<H>(t)` -/
def lmotsGetFromType (n t : Nat) : Option LmotsParam := do
  let v ← Generated.lmotsGetFromType.lookup t
  lmotsConstruct n v

/-- `LmotsAlgorithm::from(t)` followed by `construct_parameter` -/
def lmotsFromU32 (n t : Nat) : Option LmotsParam :=
  lmotsConstruct n ((Generated.lmotsFromU32.lookup t).getD Generated.lmotsFromU32Default)

def lmsConstruct (variant : String) : Option LmsParam := do
  let row ← Generated.lmsConstruct.lookup variant
  let (t, h) ← row
  pure ⟨t, h⟩

def lmsGetFromType (t : Nat) : Option LmsParam := do
  let v ← Generated.lmsGetFromType.lookup t
  lmsConstruct v

def lmsFromU32 (t : Nat) : Option LmsParam :=
  lmsConstruct ((Generated.lmsFromU32.lookup t).getD Generated.lmsFromU32Default)

end Params

/-- build-time configuration (`HBS_LMS_MAX_ALLOWED_HSS_LEVELS`, `HBS_LMS_TREE_HEIGHTS`, `HBS_LMS_WINTERNITZ_PARAMETERS`) -/
structure Config where
  maxLevels : Nat
  heights : List Nat
  winternitz : List Nat
deriving Repr, DecidableEq

namespace Config

def default : Config :=
  ⟨Generated.buildDefaultLevels, Generated.buildDefaultHeights, Generated.buildDefaultWinternitz⟩

/-- what `build.rs` accepts -/
def valid (c : Config) : Bool :=
  c.maxLevels ≤ Generated.buildLevelLimit && 1 ≤ c.maxLevels &&
  c.heights.length == c.maxLevels && c.winternitz.length == c.maxLevels

def maxTreeHeight (c : Config) : Nat := c.heights.foldl max 0
def minWinternitz (c : Config) : Nat := c.winternitz.foldl min (c.winternitz.headD 0)

/-- `MAX_NUM_WINTERNITZ_CHAINS` -/
def maxChains (c : Config) : Nat := (Params.chains c.minWinternitz Generated.MAX_HASH_SIZE).getD 0

def maxLmotsSigLen (c : Config) : Nat := Generated.lmots_signature_length Generated.MAX_HASH_SIZE c.maxChains
def maxLmsPkLen : Nat := Generated.lms_public_key_length Generated.MAX_HASH_SIZE
def maxLmsSigLen (c : Config) : Nat :=
  Generated.lms_signature_length Generated.MAX_HASH_SIZE c.maxChains c.maxTreeHeight
def maxHssPkLen : Nat := 4 + Generated.lms_public_key_length Generated.MAX_HASH_SIZE
def maxSignedPkLen (c : Config) : Nat :=
  Generated.hss_signed_public_key_length Generated.MAX_HASH_SIZE c.maxChains c.maxTreeHeight

private def chainsAt (c : Config) (level : Nat) : Nat :=
  (Params.chains (c.winternitz.getD level 0) Generated.MAX_HASH_SIZE).getD 0

/-- `constants.rs::get_hss_signature_length()`: levels `maxLevels-1 … 1` contribute a signed public key,
level 0 the final LMS signature -/
def maxHssSigLen (c : Config) : Nat :=
  4 + ((List.range c.maxLevels).drop 1).foldl
        (fun acc level => acc + Generated.hss_signed_public_key_length Generated.MAX_HASH_SIZE
                                  (chainsAt c level) (c.heights.getD level 0)) 0
    + Generated.lms_signature_length Generated.MAX_HASH_SIZE (chainsAt c 0) (c.heights.getD 0 0)

/-- `REF_IMPL_MAX_PRIVATE_KEY_SIZE` does not depend on the configuration -/
def maxPrivKeyLen : Nat := Generated.REF_IMPL_MAX_PRIVATE_KEY_SIZE

/-- `CompressedParameterSet::is_within_build_limits` -/
def withinLimits (c : Config) (level : Nat) (p : HssParam) : Bool :=
  level < c.maxLevels && p.lms.h ≤ c.heights.getD level 0 && p.ots.w ≥ c.winternitz.getD level 0

end Config

/-
`fast_verify` feature, the worker side: `thread_optimize_message_hash` and the spawning / collecting part of
`optimize_message_hash` (lm_ots/signing.rs).

Inputs of the model: `pre` = the bytes the cloned hasher has absorbed before the trailer
(`I ‖ q ‖ D_MESG ‖ C ‖ prefix`; the `message` argument of the worker is empty in the `sign_mut` path),
`start` = the worker's random start value (`OsRng.fill_bytes(trial_randomizer)`), `iters` =
`MAX_HASH_OPTIMIZATIONS / THREADS`. Core Lean only.
-/
import HbsLms.Impl.FastVerify

namespace Impl

/-- loop state of `thread_optimize_message_hash` -/
structure WorkerState where
  /-- `trial_randomizer` -/
  trial : Bytes
  /-- `max_hash_iterations` -/
  best : Nat
  /-- `randomizer` -/
  randomizer : Bytes
deriving Repr

/-- one iteration of the loop body of `thread_optimize_message_hash`:
`trial_randomizer = H(trial_randomizer)`, `message_hash = H(pre ‖ trial_randomizer)`,
`hash_iterations = fast_verify_eval(message_hash)`, keep the trial only if it is strictly better
(`randomizer.copy_from_slice(trial_randomizer)` panics on a length mismatch) -/
def workerStep (H : HashFn) (prm : LmotsParam) (pre : Bytes) (st : WorkerState) : P WorkerState := do
  let trial := H.h st.trial
  let messageHash := H.h (pre ++ trial)
  let hashIterations ← fastVerifyEval H.n prm messageHash
  if hashIterations > st.best then
    P.require "lm_ots/signing.rs:thread_optimize_message_hash copy_from_slice" (st.randomizer.length == trial.length)
    pure ⟨trial, hashIterations, trial⟩
  else
    pure ⟨trial, st.best, st.randomizer⟩

/-- `for _ in 0..k { body }` -/
def workerLoop (H : HashFn) (prm : LmotsParam) (pre : Bytes) : (k : Nat) → WorkerState → P WorkerState
  | 0, st => pure st
  | k+1, st => do
    let st' ← workerStep H prm pre st
    workerLoop H prm pre k st'

/-- `thread_optimize_message_hash`: `trial_randomizer` starts as the random value, `randomizer` as `n` zero bytes,
`max_hash_iterations` as 0; returns `(max_hash_iterations, randomizer)` -/
def workerRun (H : HashFn) (prm : LmotsParam) (pre : Bytes) (start : Bytes) (iters : Nat) : P (Nat × Bytes) := do
  let st ← workerLoop H prm pre iters ⟨start, 0, Bytes.zeros H.n⟩
  pure (st.best, st.randomizer)

/-- `optimize_message_hash`: one worker per start value; the results are collected (here: in list order; the
theorems cover every arrival order) and the receiving loop `selectTrailer` starts from the all-zero trailer -/
def optimizeTrailer (H : HashFn) (prm : LmotsParam) (pre : Bytes) (starts : List Bytes) (iters : Nat) : P Bytes := do
  let results ← starts.mapM fun start => workerRun H prm pre start iters
  pure (selectTrailer results (Bytes.zeros H.n))

end Impl

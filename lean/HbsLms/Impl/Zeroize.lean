/-
C16 model: which structs own secret bytes, and when such a struct is wiped on drop.

The declaration table (`Generated.structDecls`) is regenerated from the sources on every run:
struct name, derive list, fields with their `#[zeroize(skip)]` markers, which structs each field owns
*by value* (references do not own), and which fields store raw secret bytes (the roots: `Seed.data`,
`LmotsPrivateKey.key`).

Semantics assumed for the `zeroize` crate (trusted base): `#[derive(Zeroize)]` zeroizes every field that
is not marked `skip`; `#[derive(ZeroizeOnDrop)]` runs that on drop; drop glue drops every owned field, so a
struct that derives nothing but only owns wiped-on-drop structs is wiped by its fields.
-/
import HbsLms.Generated.Decls

namespace Impl.Zeroize

open Generated

def declAt (ds : List StructDecl) (i : Nat) : Option StructDecl := ds.find? (·.idx == i)

/-- one closure step: structs that hold raw secret bytes or own (by value) a struct already in `acc` -/
def ownersStep (ds : List StructDecl) (acc : List Nat) : List Nat :=
  (ds.filter fun d => d.fields.any fun f => f.rawSecret || f.owns.any (acc.contains ·)).map (·.idx)

/-- secret-bearing structs: least fixed point, reached after at most `ds.length` steps -/
def owners (ds : List StructDecl) : List Nat :=
  (List.range ds.length).foldl (fun acc _ => ownersStep ds acc) []

/-- a field carries secrets if it is a raw root or owns a secret-bearing struct -/
def fieldSecret (own : List Nat) (f : FieldDecl) : Bool := f.rawSecret || f.owns.any (own.contains ·)

/-- wiped on drop: (a) derives Zeroize + ZeroizeOnDrop and skips no secret field, or (b) stores no raw secret
itself and every secret-owning field is of a struct type that is wiped on drop (drop glue) -/
def wipedOnDrop (ds : List StructDecl) (own : List Nat) : (fuel : Nat) → Nat → Bool
  | 0, _ => false
  | fuel+1, i =>
    match declAt ds i with
    | none => false
    | some d =>
      if d.zeroize && d.zeroizeOnDrop then
        d.fields.all fun f => !(fieldSecret own f && f.skip)
      else
        d.fields.all fun f =>
          !f.rawSecret && (f.owns.filter (own.contains ·)).all fun j => wipedOnDrop ds own fuel j

/-- wiped by `zeroize()`: derives Zeroize and skips no secret field -/
def wipedByZeroize (ds : List StructDecl) (own : List Nat) (i : Nat) : Bool :=
  match declAt ds i with
  | none => false
  | some d => d.zeroize && d.fields.all fun f => !(fieldSecret own f && f.skip)

/-- the side condition evaluated on the regenerated table -/
def SecretsCovered (ds : List StructDecl) : Bool :=
  (owners ds).all fun i => wipedOnDrop ds (owners ds) ds.length i

/-- structs that hold raw secret bytes or derive the wipe themselves must also be wiped by an explicit `zeroize()` -/
def ZeroizeCovered (ds : List StructDecl) : Bool :=
  (owners ds).all fun i =>
    match declAt ds i with
    | none => false
    | some d => if d.zeroize || d.fields.any (·.rawSecret) then wipedByZeroize ds (owners ds) i else true

def ownerNames (ds : List StructDecl) : List String :=
  (owners ds).filterMap fun i => (declAt ds i).map (·.name)

end Impl.Zeroize

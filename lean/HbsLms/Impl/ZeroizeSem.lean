/-
C16 semantics: a small model of values, of `zeroize()` and of drop glue, against which the decidable side
conditions of `Impl/Zeroize.lean` (`owners`, `wipedOnDrop`, `wipedByZeroize`, `SecretsCovered`) are justified
(`Lemmas/ZeroizeSem.lean`, `Props/C16Sem.lean`).

A value is a tree: the leaves are the bytes a field stores itself (`raw`, flagged when these bytes are secret
material), the inner nodes are struct values (one child per declared field, in declaration order) and
containers of owned values inside one field (`many`: arrays, `ArrayVec`, tuples, `Option`).

Semantics assumed for the `zeroize` crate (trusted base, same as `Impl/Zeroize.lean`):
* `#[derive(Zeroize)]`: `zeroize()` zeroizes every field that is not marked `#[zeroize(skip)]`, recursively;
  plain bytes become 0; a field whose struct type does not derive `Zeroize` is left unchanged (in Rust that
  does not compile unless the type has a hand-written `Zeroize` impl; unchanged is the pessimistic reading);
* `#[derive(ZeroizeOnDrop)]`: `drop` first runs `zeroize()`, then the drop glue drops every field;
* a struct without `ZeroizeOnDrop`: the drop glue drops every field; plain bytes are left as they are.
-/
import HbsLms.Impl.Zeroize

namespace Impl.ZeroizeSem

open Generated Impl.Zeroize

inductive Val where
  /-- the bytes a field stores itself; `secret` = these bytes are secret material -/
  | raw (secret : Bool) (bytes : List UInt8)
  /-- a value of struct `idx`: one `Val` per declared field, in declaration order -/
  | struct (idx : Nat) (fields : List Val)
  /-- arrays / `ArrayVec` / tuples of owned values inside one field -/
  | many (vs : List Val)
deriving Repr

/-! ### typing -/

mutual
/-- `v` may be the content of a field declared as `f`:
a `rawSecret` field holds secret bytes (`raw true`, or a container of such);
any other field holds non-secret bytes (`raw false`) and well-typed structs whose index is in `f.owns`
(directly or inside containers). -/
def fieldWt (ds : List StructDecl) (f : FieldDecl) : Val → Bool
  | .raw s _ => s == f.rawSecret
  | .many vs => allFieldWt ds f vs
  | .struct i fs =>
    !f.rawSecret && f.owns.contains i &&
      match declAt ds i with
      | some d => fieldsWt ds d.fields fs
      | none => false
/-- every element of a container is a possible content of field `f` -/
def allFieldWt (ds : List StructDecl) (f : FieldDecl) : List Val → Bool
  | [] => true
  | v :: vs => fieldWt ds f v && allFieldWt ds f vs
/-- the field values match the declared fields one by one -/
def fieldsWt (ds : List StructDecl) : List FieldDecl → List Val → Bool
  | [], [] => true
  | f :: fs, v :: vs => fieldWt ds f v && fieldsWt ds fs vs
  | _, _ => false
end

/-- a well-typed struct value: its index is declared and its fields match the declaration -/
def WellTyped (ds : List StructDecl) : Val → Bool
  | .struct i fs =>
    match declAt ds i with
    | some d => fieldsWt ds d.fields fs
    | none => false
  | _ => false

/-! ### secret bytes still in memory -/

mutual
/-- number of non-zero bytes inside the `raw true` leaves -/
def secretsLeft : Val → Nat
  | .raw s bs => if s then bs.countP (· != 0) else 0
  | .struct _ fs => secretsLeftAll fs
  | .many vs => secretsLeftAll vs
def secretsLeftAll : List Val → Nat
  | [] => 0
  | v :: vs => secretsLeft v + secretsLeftAll vs
end

/-! ### `zeroize()` -/

mutual
/-- what `zeroize()` does to a value -/
def zeroizeVal (ds : List StructDecl) : Val → Val
  | .raw s bs => .raw s (List.replicate bs.length 0)
  | .many vs => .many (zeroizeAll ds vs)
  | .struct i fs =>
    match declAt ds i with
    | some d => if d.zeroize then .struct i (zeroizeFields ds d.fields fs) else .struct i fs
    | none => .struct i fs
def zeroizeAll (ds : List StructDecl) : List Val → List Val
  | [] => []
  | v :: vs => zeroizeVal ds v :: zeroizeAll ds vs
/-- the derived `zeroize()`: every field that is not marked `skip` is zeroized -/
def zeroizeFields (ds : List StructDecl) : List FieldDecl → List Val → List Val
  | f :: fs, v :: vs => (if f.skip then v else zeroizeVal ds v) :: zeroizeFields ds fs vs
  | _, vs => vs
end

/-! ### drop -/

mutual
/-- number of nodes (termination measure of `dropVal`; `zeroizeVal` preserves it) -/
def Val.size : Val → Nat
  | .raw _ _ => 1
  | .struct _ fs => 1 + sizeAll fs
  | .many vs => 1 + sizeAll vs
def sizeAll : List Val → Nat
  | [] => 0
  | v :: vs => 1 + v.size + sizeAll vs
end

mutual
theorem size_zeroizeVal (ds : List StructDecl) : ∀ v : Val, (zeroizeVal ds v).size = v.size
  | .raw _ _ => by simp [zeroizeVal, Val.size]
  | .many vs => by simp [zeroizeVal, Val.size, sizeAll_zeroizeAll ds vs]
  | .struct i fs => by
    unfold zeroizeVal
    split
    · split
      · simp [Val.size, sizeAll_zeroizeFields ds _ fs]
      · rfl
    · rfl
theorem sizeAll_zeroizeAll (ds : List StructDecl) : ∀ vs : List Val, sizeAll (zeroizeAll ds vs) = sizeAll vs
  | [] => by simp [zeroizeAll]
  | v :: vs => by simp [zeroizeAll, sizeAll, size_zeroizeVal ds v, sizeAll_zeroizeAll ds vs]
theorem sizeAll_zeroizeFields (ds : List StructDecl) :
    ∀ (gs : List FieldDecl) (vs : List Val), sizeAll (zeroizeFields ds gs vs) = sizeAll vs
  | _, [] => by cases ‹List FieldDecl› <;> simp [zeroizeFields]
  | [], _ :: _ => by simp [zeroizeFields]
  | g :: gs, v :: vs => by
    simp only [zeroizeFields, sizeAll, sizeAll_zeroizeFields ds gs vs]
    split
    · rfl
    · rw [size_zeroizeVal ds v]
end

theorem size_lt_of_mem {v : Val} {vs : List Val} (h : v ∈ vs) : v.size < 1 + sizeAll vs := by
  induction vs with
  | nil => cases h
  | cons w ws ih =>
    simp only [sizeAll]
    rcases List.mem_cons.1 h with rfl | h
    · omega
    · have := ih h
      omega

/-- the fields as the drop glue finds them: `ZeroizeOnDrop` has run `zeroize()` first -/
def preDrop (ds : List StructDecl) (i : Nat) (fs : List Val) : List Val :=
  match declAt ds i with
  | some d => if d.zeroize && d.zeroizeOnDrop then zeroizeFields ds d.fields fs else fs
  | none => fs

theorem sizeAll_preDrop (ds : List StructDecl) (i : Nat) (fs : List Val) :
    sizeAll (preDrop ds i fs) = sizeAll fs := by
  unfold preDrop
  split
  · split
    · exact sizeAll_zeroizeFields ds _ fs
    · rfl
  · rfl

/-- the memory a value leaves behind when it is dropped
(`attach` only records `v ∈ preDrop ds i fs` for the termination proof; see `dropVal_struct`) -/
def dropVal (ds : List StructDecl) : Val → Val
  | .raw s bs => .raw s bs
  | .many vs => .many (vs.map (dropVal ds))
  | .struct i fs => .struct i ((preDrop ds i fs).attach.map fun v => dropVal ds v.1)
termination_by v => v.size
decreasing_by
  · rename_i h
    simp only [Val.size]
    exact size_lt_of_mem h
  · simp only [Val.size]
    have := size_lt_of_mem v.2
    rw [sizeAll_preDrop] at this
    exact this

theorem dropVal_raw (ds : List StructDecl) (s : Bool) (bs : List UInt8) :
    dropVal ds (.raw s bs) = .raw s bs := by
  rw [dropVal]

theorem dropVal_many (ds : List StructDecl) (vs : List Val) :
    dropVal ds (.many vs) = .many (vs.map (dropVal ds)) := by
  rw [dropVal]

/-- `ZeroizeOnDrop` structs: `zeroize()` first, then every field is dropped; other structs: every field is dropped -/
theorem dropVal_struct (ds : List StructDecl) (i : Nat) (fs : List Val) :
    dropVal ds (.struct i fs) = .struct i ((preDrop ds i fs).map (dropVal ds)) := by
  rw [dropVal]
  congr 1
  exact List.attach_map_val

/-! ### extra side conditions (what the Rust compiler checks for the derives) -/

/-- `#[derive(Zeroize, ZeroizeOnDrop)]` only wipes a non-skipped field as far as the field's own type is wiped:
every secret-bearing struct owned by a non-skipped field of such a struct is itself wiped on drop.
(Implied by `SecretsCovered`.) -/
def DeriveSound (ds : List StructDecl) : Bool :=
  ds.all fun d => !(d.zeroize && d.zeroizeOnDrop) ||
    d.fields.all fun f => f.skip ||
      (f.owns.filter ((owners ds).contains ·)).all fun j => wipedOnDrop ds (owners ds) ds.length j

/-- the same for an explicit `zeroize()`: every secret-bearing struct owned by a non-skipped field of a
`#[derive(Zeroize)]` struct is itself wiped by `zeroize()`. -/
def ZeroizeSound (ds : List StructDecl) : Bool :=
  ds.all fun d => !d.zeroize ||
    d.fields.all fun f => f.skip ||
      (f.owns.filter ((owners ds).contains ·)).all fun j => wipedByZeroize ds (owners ds) j

end Impl.ZeroizeSem

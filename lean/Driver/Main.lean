/-
Line-protocol driver: answers the same requests as the Rust harness, from the Impl model.
usage: hbsdriver [maxLevels heightsCsv winternitzCsv]
-/
import HbsLms.Impl.FastVerify
import HbsLms.Spec.Rfc8554

open Impl

def parseArgs (toks : List String) : List (String × String) :=
  toks.filterMap fun t =>
    match t.splitOn "=" with
    | [k, v] => some (k, v)
    | _ => none

def arg (a : List (String × String)) (k : String) : Option String := a.lookup k

def argBytes (a : List (String × String)) (k : String) : Option Bytes := do
  Bytes.ofHex (← arg a k)

def argOptBytes (a : List (String × String)) (k : String) : Option (Option Bytes) :=
  match arg a k with
  | none => some none
  | some "none" => some none
  | some h => (Bytes.ofHex h).map some

def argNat (a : List (String × String)) (k : String) : Option Nat := do
  (← arg a k).toNat?

def natList (s : String) : Option (List Nat) :=
  if s == "-" then some [] else (s.splitOn ",").mapM String.toNat?

def joinNats (l : List Nat) : String :=
  if l.isEmpty then "-" else ",".intercalate (l.map toString)

def parseParams (n : Nat) (s : String) : Option (List HssParam) :=
  if s == "-" then some [] else
  (s.splitOn ",").mapM fun item =>
    match item.splitOn ":" with
    | [o, l] => do
      let o ← o.toNat?
      let l ← l.toNat?
      -- the harness can only build parameters from existing enum variants
      let ots ← Params.lmotsGetFromType n o
      let lms ← Params.lmsGetFromType l
      pure ⟨ots, lms⟩
    | _ => none

def auxSuffix (aux : Option Bytes) (rest : Bytes) : String :=
  match aux with
  | none => " aux=none"
  | some b => s!" aux={Bytes.toHex b} rest={Bytes.toHex rest}"

def showP {α} (r : P α) (f : α → String) : String :=
  match r with
  | .ok v => f v
  | .error (.panic site) => s!"panic@{site}"

def runOp (cfg : Config) (H : HashFn) (op : String) (a : List (String × String)) : Option String :=
  match op with
  | "hash" => do
    let m ← argBytes a "msg"
    pure s!"ok {Bytes.toHex (H.h m)}"
  | "keygen" => do
    let ps ← parseParams H.n (← arg a "params")
    -- seed=<n bytes>, or seedfull=<32 bytes> of which only the first n are the seed
    let seed ← match arg a "seedfull" with
      | some _ => do
        let full ← argBytes a "seedfull"
        if full.length != 32 then none
        pure (full.take H.n)
      | none => argBytes a "seed"
    if seed.length != H.n then none
    let aux ← argOptBytes a "aux"
    pure <| showP (hssKeygen H cfg ps seed aux) fun o =>
      match o.result with
      | some (sk, vk) => s!"ok sk={Bytes.toHex sk} vk={Bytes.toHex vk}{auxSuffix o.aux o.auxRest}"
      | none => s!"err{auxSuffix o.aux o.auxRest}"
  | "sign" => do
    let sk ← argBytes a "sk"
    let msg ← argBytes a "msg"
    let accept ← match arg a "cb" with
      | some "accept" => some true
      | some "reject" => some false
      | _ => none
    let aux ← argOptBytes a "aux"
    pure <| showP (hssSign H cfg msg sk (fun _ => accept) aux) fun o =>
      let cbs := if o.trace.isEmpty then "none" else ",".intercalate (o.trace.map Bytes.toHex)
      match o.result with
      | some sig => s!"ok sig={Bytes.toHex sig} cb={cbs}{auxSuffix o.aux o.auxRest}"
      | none => s!"err cb={cbs}{auxSuffix o.aux o.auxRest}"
  | "trysign" => do
    let sk ← argBytes a "sk"
    let msg ← argBytes a "msg"
    let aux ← argOptBytes a "aux"
    pure <| showP (trySign H cfg msg sk aux) fun r =>
      match r with
      | none => "err-frombytes"
      | some (o, k') =>
        match o.result with
        | some sig => s!"ok sig={Bytes.toHex sig} sk={Bytes.toHex k'}{auxSuffix o.aux o.auxRest}"
        | none => s!"err sk={Bytes.toHex k'}{auxSuffix o.aux o.auxRest}"
  | "verify" => do
    let msg ← argBytes a "msg"
    let sig ← argBytes a "sig"
    let pk ← argBytes a "pk"
    let e ← match arg a "entry" with
      | some "fn" => some Entry.fn
      | some "sig" => some Entry.viaSignature
      | some "vsig" => some Entry.viaVerifierSignature
      | _ => none
    pure <| showP (verifyEntry e H cfg msg sig pk) fun b => if b then "ok" else "err"
  | "signmut" => do
    let sk ← argBytes a "sk"
    let msg ← argBytes a "msg"
    let trailer ← argBytes a "trailer"
    let accept ← match arg a "cb" with
      | some "accept" => some true
      | some "reject" => some false
      | _ => none
    pure <| showP (hssSignMut H cfg msg trailer sk (fun _ => accept)) fun (o, m) =>
      let cbs := if o.trace.isEmpty then "none" else ",".intercalate (o.trace.map Bytes.toHex)
      match o.result with
      | some sig => s!"ok sig={Bytes.toHex sig} cb={cbs} msg={Bytes.toHex m}"
      | none => s!"err cb={cbs} msg={Bytes.toHex m}"
  | "fveval" => do
    let t ← argNat a "type"
    let d ← argBytes a "digest"
    if d.length != H.n then none
    pure <| match Params.lmotsGetFromType H.n t with
      | none => "none"
      | some p => showP (fastVerifyEval H.n p d) fun v => s!"ok {v}"
  | "specverify" => do
    -- the RFC 8554 specification (Spec/Rfc8554.lean) executed on the same bytes, with the library's type-code tables
    let msg ← argBytes a "msg"
    let sig ← argBytes a "sig"
    let pk ← argBytes a "pk"
    let T : Spec.Tables := ⟨Params.lmotsGetFromType H.n, Params.lmsGetFromType⟩
    pure (if Spec.hssValid H T cfg.maxLevels msg sig pk then "ok" else "err")
  | "auxshape" => do
    let t ← argNat a "lms"
    let len ← argNat a "len"
    match Params.lmsGetFromType t with
    | none => pure "none"
    | some lp =>
      if len == 0 then pure "none" else
      let auxLen := hss_get_aux_data_len H.n lp.h len
      let level := (hss_optimal_aux_level H.n lp.h auxLen).1
      -- only the level word of the marked buffer matters for the shape; avoid materialising huge buffers
      let marked := hss_store_aux_marker (Bytes.zeros (min auxLen 8)) level
      if !hss_is_aux_data_used marked then pure s!"ok len={auxLen} level={level} layers=- mac=0" else
      let sizes := (List.range (cfg.maxTreeHeight + 1)).map fun i => if (level >>> i) &&& 1 == 0 then 0 else H.n <<< i
      let layers := (List.range (cfg.maxTreeHeight + 1)).filterMap fun i =>
        let sz := sizes.getD i 0
        if sz == 0 then none else some s!"{i}:{sz}"
      let total := 4 + sizes.foldl (· + ·) 0
      let ls := if layers.isEmpty then "-" else ",".intercalate layers
      pure s!"ok len={auxLen} level={level} layers={ls} mac={auxLen - total}"
  | "lifetime" => do
    let sk ← argBytes a "sk"
    pure <| showP (getLifetime H cfg sk) fun r =>
      match r with
      | some l => s!"ok {l}"
      | none => "err"
  | "frombytes" => do
    let b ← argBytes a "bytes"
    let ok ← match arg a "kind" with
      | some "sig" => some (decide (b.length ≤ cfg.maxHssSigLen ∧ b.length ≤ 65535))
      | some "vsig" => some true
      | some "vk" => some (decide (b.length ≤ Config.maxHssPkLen))
      | some "sk" => some (decide (b.length ≤ Config.maxPrivKeyLen))
      | _ => none
    pure (if ok then "ok" else "err")
  | "row" => do
    let t ← argNat a "type"
    match arg a "kind" with
    | some "lmots" =>
      pure <| match Params.lmotsGetFromType H.n t with
        | some p => s!"ok id={p.typeId} w={p.w} p={p.p} ls={p.ls}"
        | none => "none"
    | some "lms" =>
      pure <| match Params.lmsGetFromType t with
        | some p => s!"ok id={p.typeId} h={p.h}"
        | none => "none"
    | _ => none
  | "digits" => do
    let t ← argNat a "type"
    let d ← argBytes a "digest"
    if d.length != H.n then none
    pure <| match Params.lmotsGetFromType H.n t with
      | none => "none"
      | some p => showP (digits H.n p d) fun ds => s!"ok {joinNats ds}"
  | "ctr" => do
    let ts ← natList (← arg a "lms")
    let c ← argNat a "c"
    if ts.length > cfg.maxLevels then pure "ok leaves=none inc=none life=none" else
    match ts.mapM Params.lmsGetFromType with
    | none => pure "ok leaves=none inc=none life=none"
    | some ps =>
      let hs := ps.map (·.h)
      let leaves := leavesOfCounter hs c
      let inc := match incrementCounter hs c with
        | some c' => toString c'
        | none => "wiped"
      pure s!"ok leaves={joinNats leaves} inc={inc} life={lifetimeOf hs leaves}"
  | "rootseed" => do
    let sk ← argBytes a "sk"
    pure <| match RefKey.parse H.n sk with
      | none => "none"
      | some k => let (s, i) := rootSeedAndId H k.seed; s!"ok seed={Bytes.toHex s} id={Bytes.toHex i}"
  | "child" => do
    let seed ← argBytes a "seed"
    let id ← argBytes a "id"
    let q ← argNat a "q"
    if id.length != 16 then none
    if seed.length != H.n then pure "none" else
    let (s, i) := childSeedAndId H seed id q
    pure s!"ok seed={Bytes.toHex s} id={Bytes.toHex i}"
  | "rand" => do
    let seed ← argBytes a "seed"
    let id ← argBytes a "id"
    let q ← argNat a "q"
    if id.length != 16 then none
    if seed.length != H.n then pure "none" else
    pure s!"ok {Bytes.toHex (signatureRandomizer H seed id q)}"
  | "node" => do
    let seed ← argBytes a "seed"
    let id ← argBytes a "id"
    let r ← argNat a "r"
    let o ← argNat a "ots"
    let l ← argNat a "lms"
    if id.length != 16 then none
    match Params.lmotsGetFromType H.n o, Params.lmsGetFromType l with
    | some ots, some lms =>
      if r == 0 || r ≥ 2 * 2 ^ lms.h || seed.length != H.n then pure "none" else
      pure s!"ok {Bytes.toHex (treeNode H ⟨id, seed, ots, lms⟩ r none).1}"
    | _, _ => pure "none"
  | _ => none

def constsLine (cfg : Config) : String :=
  s!"ok MAX_ALLOWED_HSS_LEVELS={cfg.maxLevels} MAX_TREE_HEIGHT={cfg.maxTreeHeight} TREE_HEIGHTS={joinNats cfg.heights} MIN_WINTERNITZ_PARAMETER={cfg.minWinternitz} WINTERNITZ_PARAMETERS={joinNats cfg.winternitz} MAX_NUM_WINTERNITZ_CHAINS={cfg.maxChains} MAX_HASH_SIZE={Generated.MAX_HASH_SIZE} MAX_LMOTS_SIGNATURE_LENGTH={cfg.maxLmotsSigLen} MAX_LMS_PUBLIC_KEY_LENGTH={Config.maxLmsPkLen} MAX_LMS_SIGNATURE_LENGTH={cfg.maxLmsSigLen} MAX_HSS_PUBLIC_KEY_LENGTH={Config.maxHssPkLen} MAX_HSS_SIGNED_PUBLIC_KEY_LENGTH={cfg.maxSignedPkLen} MAX_HSS_SIGNATURE_LENGTH={cfg.maxHssSigLen} REF_IMPL_MAX_PRIVATE_KEY_SIZE={Config.maxPrivKeyLen}"

def dispatch (cfg : Config) (line : String) : String :=
  let toks := (line.trimAscii.toString.splitOn " ").filter (· ≠ "")
  match toks with
  | [] => "badreq"
  | op :: rest =>
    if op == "consts" then constsLine cfg else
    let a := parseArgs rest
    match HashFn.ofName ((arg a "H").getD "S32") with
    | none => "badreq"
    | some H => (runOp cfg H op a).getD "badreq"

partial def loop (cfg : Config) (h : IO.FS.Stream) (out : IO.FS.Stream) : IO Unit := do
  let line ← h.getLine
  if line.isEmpty then return ()
  let t := line.trimAscii.toString
  if t == "END" then
    out.putStrLn "END"
    out.flush
  else if t != "" then
    out.putStrLn (dispatch cfg t)
  loop cfg h out

def main (args : List String) : IO Unit := do
  let cfg : Config := match args with
    | [l, hs, ws] =>
      match l.toNat?, natList hs, natList ws with
      | some l, some hs, some ws => ⟨l, hs, ws⟩
      | _, _, _ => Config.default
    | _ => Config.default
  loop cfg (← IO.getStdin) (← IO.getStdout)
